#!/usr/bin/env python3
"""Regenerates MANIFEST.json from the table below (properties themselves are fixed in properties.jsonl)."""
import json, subprocess
props = [json.loads(l) for l in open('/verif/properties.jsonl')]
LEDGER_LEVEL = ("bounded exhaustive TLC run of LedgerMC.tla (all interleavings of proposals / gossip deliveries split at the lock "
                "boundary, all tip iteration orders, crafted vertices, retries, truncation, trust changes, DAG loading) for the design, "
                "plus TLC trace validation of hundreds of TLC-generated and directed behaviours executed on real AccountingBooks: the "
                "property's own invariants / step properties are evaluated by TLC in every recorded real state, and the recorded outcome "
                "of the property's own actions must be one Ledger.tla allows")
LEDGER_NOTE = ("trusted: projection + driver Go code in /verif/harness (reports, does not judge), TLC, crypto/ed25519 + sha256; "
               "bounded constants in MC; real-code runs use truncation depth 1-3 through the verif hook and drive the book's background loops "
               "synchronously")
CLAIMS = {
 "C01": ("ledger", "model_checking", LEDGER_LEVEL, LEDGER_NOTE),
 "C02": ("ledger", "model_checking", LEDGER_LEVEL + "; the conservation invariant is checked modulo the TLA+ signature of known finding F10", LEDGER_NOTE),
 "C03": ("ledger", "model_checking", LEDGER_LEVEL, LEDGER_NOTE),
 "C05": ("spice", "model_checking", "TLC checks for ALL operand tuples at scaled constants that the transcription of the Go Supply/Transfer algorithms (explicit wrap-around and carry) equals the reference semantics on unbounded integers (exact, atomic, canonical); the real functions are then run at the real constants on the boundary product of the quantifier and on seeded random operands and TLC judges every recorded result on limb-encoded numbers; non canonical amounts are offered to real ledgers at every ingress and judged with Ledger.tla",
         "trusted: limb encoding in the driver, TLC; exhaustive only at scaled constants (Base 3..7, 2^64 -> 8/16)"),
 "C06": ("ledger", "model_checking", LEDGER_LEVEL + "; every recorded balance reply must be a member of the reference set computed by TLC from the recorded state", LEDGER_NOTE),
 "C07": ("ledger", "model_checking", LEDGER_LEVEL, LEDGER_NOTE),
 "C08": ("locks", "model_checking", "TLC checks WalkLocks.tla (Go RWMutex semantics, graph walker goroutine, consumer exits at every visit count, truncate's three walks, writers, DAG streaming) for deadlock freedom, no abandoned walker, no send on a closed channel and the liveness property that every operation returns; the lock driver then runs the real operations with cancellation at every visit count, every truncation cut depth, streaming against writers, and TLC judges the recorded observations (returned / walkers left / later operations complete)",
         "the graph library has no hooks: its walker is observed through the goroutine profile and liveness probes with a 10 s wedge bound; Go RWMutex writer preference as modelled"),
 "C09": ("ledger", "model_checking", LEDGER_LEVEL + "; hashes and all signatures of every held vertex are recomputed by the driver independently of the repository's verifier", LEDGER_NOTE),
 "C10": ("ledger", "model_checking", LEDGER_LEVEL, LEDGER_NOTE),
 "C13": ("ledger", "model_checking", LEDGER_LEVEL + "; permutations of delivery of a valid history with retry ticks and duplicates, final ledgers compared by TLC", LEDGER_NOTE),
 "C14": ("ledger", "model_checking", LEDGER_LEVEL + "; streams of real ledgers loaded into fresh real nodes - through the book's channel and through the real transport (the source's gossip server on a loopback gRPC port, the proto mapping both ways, the loading node's updateDag) - single corruptions of the stream, follow-up traffic to both nodes", LEDGER_NOTE),
 "C17": ("cache", "model_checking", "TLC explores every interleaving of the individual bigcache calls of concurrent save / remove / read operations (AwaitCache.tla, mutex-guarded as in the repaired code) and checks the quiescence invariant (listed for issuer and receiver, nothing else, nothing twice) and that only the receiver removes; on the real Hippocampus sequential call sequences are judged call by call against the specification, every two-call interleaving is forced at the gate between list read and list write, and free-running goroutines on shared addresses end in states TLC judges with the same invariant",
         "trusted: VerifPeek (read-only hook), bigcache single calls atomic, TLC; expiry/eviction are excluded by running with an unbounded cache inside the life window"),
 "C20": ("file", "fault_enumeration", "WalletFile.tla states what Decrypt + GOB decoding return for every file length, every changed byte position and every key class (AEAD axiom; the unchecked slice is a named deviation switch); TLC enumerates it at scaled region lengths, and the driver executes ALL concrete members on the real code - every truncation length 0..len, every single-byte position with several values, wrong keys, single key-bit flips, keys of invalid length, keys related to the right one (extended, prefix), files saved over an older wallet, saves nested between each other's encode / seal / write steps, savers side by side, PEM round trip - with TLC judging each recorded outcome against the specification",
         "trusted: crypto/aes, cipher.GCM and encoding/gob behave as the AEAD axiom says; TLC"),
 "C11": ("gossip", "model_checking", "TLC explores GossipNet.tla from every connected symmetric peer graph on 2, 3 and 4 nodes, every delivery order with duplicates, for a vertex, a vertex plus an awaiting transaction, and parent-linked vertices (admitted once, forwarded once, never sent to a verified gossiper, forwarded only after acceptance, termination, everybody reached - the last one modulo the TLA+ signature of known finding F13); TLC-simulated delivery orders and a burst of vertices accepted while the origin loops are stalled are replayed on a virtual network of real gossipers (real ledgers, caches, flash memory, pipes; stub clients) and every delivery is judged by TLC against the specification's Receive / Pull / Retry",
         "trusted: stub transport with deep-copied messages, quiescence detection from goroutine stacks, gossiper-list decoding in the driver, TLC; the 20 s flash window does not expire within a run"),
 "C12": ("gossip", "model_checking", "as C11 with an adversarial relay at different positions that sends known items with lists assembled from garbage (also 120 entries long), its own key under other addresses, and honest entries lifted from other messages; TLC checks that only valid entries count (a node skips processing / is skipped only on its own valid signature for this item) and that every honest node with an honest path to the origin is reached; the forged lists are replayed against the real handlers and each delivery is judged by TLC",
         "as C11; forged ITEMS (a hash announced with corrupted content, which poisons the flash memory) are outside this property's quantifier over lists - see DESIGN.md F14"),
 "C16": ("notary", "model_checking", "TLC explores Notary.tla - propose / confirm / reject / challenge / waiting / history / balance / saved requests by an honest issuer, an honest receiver and a third key, with the form in which the signed bytes are presented (as issued or re-split), challenge expiry, the read throttle, and handlers split between cache removal and ledger call - for: contracts sealed only through an act of the receiver (modulo the TLA+ signature of known finding F11), at most once, transfers never parked; TLC-simulated and directed call sequences incl. bursts of identical concurrent requests (losers answered like a repetition), an oversize contract, and balance reads after the read throttle has lapsed are executed on the real server (real ledger, cache, flash, challenge store) and TLC judges every reply and the observed cache / ledger content",
         "trusted: handlers are called as Go methods (no TLS/gRPC), challenge expiry by sleeping past a 1 s longevity, TLC"),
 "C15": ("shapes", "exploration", "RpcShapes.tla abstracts every request of the notary, gossip and webhook services to the class of each bytes / sub-message / address field and states the contract (a reply or an error, never a crash; unacceptable shapes are refused; a refusal adds nothing to ledger, awaiting cache or peer table); TLC enumerates the shape space (each field against a valid request, all pairs, the full product for SignedHash requests; triples in the thorough tier) and every enumerated shape is built concretely and sent to the real handlers under recover(), with TLC judging the recorded outcomes; Announce / Discover requests (forged, replayed, genuine, and valid ones overlapping) go over loopback gRPC to real gossip servers and are judged against Membership.tla; Webhooks requests run against the real webhook service with HTTP endpoints on loopback ports, a probe notification per address after every step, judged against Webhooks.tla",
         "trusted: handlers are called as Go methods with message structs built directly (nil sub-messages included) rather than decoded from bytes; coverage-guided mutation of serialized requests is not attempted; TLC"),
 "C04": ("seal", "model_checking", "Seal.tla is a symbolic (Dolev-Yao style) model of which bytes go into which digest (the transaction message as a bare concatenation, the vertex digest, the receiver signature that is checked only when present, self-checking addresses); TLC applies every mutation of the quantifier to every honest vertex of a bounded universe and reports exactly two ways around the signatures (known findings F11, F12); all concrete members of every abstract mutation - every single-bit flip of every fixed-size field, every address position, truncations / extensions, boundary moves, swaps between two valid vertices, replaced / stripped signatures and addresses, seeded multi-bit flips, each also to a node that trusts the sealer, twins of a vertex that is parked with an unknown parent, a self-addressed countersigned transaction - are offered to a real node, which must admit a copy exactly when the abstract copy verifies in the model and change nothing when it refuses",
         "trusted: cryptographic strength of ed25519 / sha256 (hashing injective, signatures unforgeable); TLC; LoadDag trusts its stream (no signature check) and is outside this check"),
 "C18": ("race", "exploration", "the Go race detector judges a seeded concurrent workload over the ledger's public API with the real background loops running (retry ticker, subscriber, truncation loop), the awaiting cache and the gossip handlers; the specification contributes what to overlap (every pair of ledger operations is co-enabled in Ledger.tla, so the workload overlaps all of them) - the verdict itself is not TLC's",
         "trusted: Go race detector; only races that occur in the explored schedules are reported"),
}
NA = {
 "C19": "encode/decode fidelity of third-party codecs: no state, interleaving or case analysis in this repository to specify; a TLA+ model of encode-then-decode is the identity function (DESIGN.md section 8)",
}
hook_commits = subprocess.run(["git", "-C", "/repo", "log", "--format=%h", "--grep=^verif hooks"], capture_output=True, text=True).stdout.split()
m = {"version": 1, "setup_cmd": "./check setup",
     "hooks": {"guard": "verif", "enable": "go build -tags verif ./cmd/drive   (module /verif/harness, replace github.com/bartossh/Computantis/src => /repo/src)",
               "baseline_off_cmd": "cd /repo/src && GOFLAGS=-mod=mod go test -json -vet=off -count=1 -timeout 25m ./...",
               "source_commits": hook_commits, "add_only": True},
     "engines": [
        {"name": "ledger", "path": "specs/Ledger.tla specs/LedgerMC.tla specs/LedgerTrace.tla harness/cmd/drive/ledger.go harness/cmd/drive/netload.go runner/ledger.py",
         "serves_properties": ["C01", "C02", "C03", "C06", "C07", "C09", "C10", "C13", "C14"],
         "kind_free_text": "explicit TLA+ specification of the accounting books; TLC bounded model checking; TLC-generated behaviours replayed on real AccountingBooks; TLC trace validation"},
        {"name": "spice", "path": "specs/Spice.tla specs/SpiceMC.tla specs/SpiceTrace.tla harness/cmd/drive/spicedrv.go runner/spice.py",
         "serves_properties": ["C05"], "kind_free_text": "TLA+ transcription of the currency arithmetic vs reference semantics, exhaustive at scaled constants; trace validation at real constants"},
        {"name": "cache", "path": "specs/AwaitCache.tla specs/AwaitCacheMC.tla specs/AwaitCacheTrace.tla harness/cmd/drive/cachedrv.go runner/cachechk.py",
         "serves_properties": ["C17"], "kind_free_text": "TLA+ specification of the cache operations at bigcache-call granularity; TLC; trace validation incl. gate-forced interleavings"},
        {"name": "file", "path": "specs/WalletFile.tla specs/WalletFileTrace.tla harness/cmd/drive/filedrv.go runner/filechk.py",
         "serves_properties": ["C20"], "kind_free_text": "TLA+ case analysis of reading the encrypted wallet file; every enumerated fault executed on the real code, outcomes judged by TLC"},
        {"name": "gossip", "path": "specs/GossipNet.tla specs/GossipNetMC.tla specs/GossipNetGen.tla specs/GossipNetTrace.tla harness/cmd/drive/gossipdrv.go runner/gossipchk.py",
         "serves_properties": ["C11", "C12"], "kind_free_text": "TLA+ specification of gossip about gossip incl. adversarial relays; TLC over all small topologies; replay on a virtual network of real gossipers; TLC trace validation"},
        {"name": "notary", "path": "specs/Notary.tla specs/NotaryMC.tla specs/NotaryGen.tla specs/NotaryTrace.tla harness/cmd/drive/notarydrv.go runner/notarychk.py",
         "serves_properties": ["C16"], "kind_free_text": "TLA+ specification of the notary API's effects; TLC; call sequences replayed on the real server; TLC trace validation"},
        {"name": "shapes", "path": "specs/RpcShapes.tla specs/RpcShapesTrace.tla harness/cmd/drive/shapesdrv.go runner/shapeschk.py",
         "serves_properties": ["C15"], "kind_free_text": "TLA+ request-shape contract; TLC enumerates shapes; each executed on the real handlers; TLC judges outcomes"},
        {"name": "seal", "path": "specs/Seal.tla specs/SealTrace.tla harness/cmd/drive/sealdrv.go runner/sealchk.py",
         "serves_properties": ["C04"], "kind_free_text": "symbolic TLA+ model of signature coverage; all concrete mutations offered to a real node; TLC trace validation"},
        {"name": "race", "path": "harness/cmd/drive/racedrv.go runner/racechk.py", "serves_properties": ["C18"],
         "kind_free_text": "Go race detector over a concurrent workload (co-enabled operations from Ledger.tla)"},
        {"name": "membership", "path": "specs/Membership.tla specs/MembershipTrace.tla harness/cmd/drive/memberdrv.go runner/memberchk.py",
         "serves_properties": ["C15"], "kind_free_text": "TLA+ specification of the discovery protocol (Discover / Announce / joiner's loop, adversary, failures); TLC; real gossipers behind loopback gRPC servers; TLC trace validation (also ./check M01)"},
        {"name": "webhooks", "path": "specs/Webhooks.tla specs/WebhooksTrace.tla harness/cmd/drive/webhookdrv.go runner/webhookchk.py",
         "serves_properties": ["C15"], "kind_free_text": "TLA+ specification of the webhook subscriptions (subscribe / replace / remove / notify, endpoints failing, adversary); TLC; the real service and handler with loopback HTTP endpoints; TLC trace validation (also ./check W01)"},
        {"name": "balancecache", "path": "specs/BalanceCache.tla specs/BalanceCacheTrace.tla harness/cmd/drive/balancedrv.go runner/balancechk.py",
         "serves_properties": [], "kind_free_text": "TLA+ specification of the notary's balance cache and read throttle (cached value, goroutine save, invalidation by seals); TLC incl. two documented refutations; the real notary server on a real ledger; TLC trace validation (./check B01; serves no listed property)"},
        {"name": "locks", "path": "specs/WalkLocks.tla specs/WalkLocksMC.tla specs/WalkLocksTrace.tla harness/cmd/drive/locks.go runner/locks.py",
         "serves_properties": ["C08"], "kind_free_text": "explicit TLA+ specification of locks, walker goroutines and channels; TLC safety + liveness; real-code fault enumeration judged by TLC"}],
     "checks": [], "not_applicable": [], "notes": "see DESIGN.md; known findings in known_findings.json"}
for p in props:
    i = p["id"]
    if i in CLAIMS:
        eng, cat, text, note = CLAIMS[i]
        m["checks"].append({"property_id": i, "quick_cmd": "./check %s quick" % i, "thorough_cmd": "./check %s thorough" % i,
                            "evidence_file": "evidence/%s.json" % i, "replay_cmd_template": "./check %s quick --replay {path}" % i,
                            "engine": eng, "level_claimed": {"category": cat, "text": text, "design_ref": "DESIGN.md section 6, " + i},
                            "level_note": note,
                            "technique": "explicit TLA+ specification checked with TLC, bound to the code by TLC trace validation of real executions"})
    else:
        m["not_applicable"].append({"property_id": i, "reason": NA.get(i, "no check registered yet in this round; planned with an explicit TLA+ specification (DESIGN.md section 6)")})
json.dump(m, open('/verif/MANIFEST.json', 'w'), indent=1)
print("claimed:", [c["property_id"] for c in m["checks"]])
