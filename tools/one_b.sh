#!/bin/bash
# usage: tools/one_b.sh <ID> <n> [tier]   - one round-B candidate against the check of its property, in a scratch worktree
id=$1; n=$2; tier=${3:-quick}
WT=${WTBASE:-/tmp/mutb}/one_$id$n
git -C /repo worktree remove --force $WT 2>/dev/null
git -C /repo worktree add -q --detach $WT HEAD || exit 1
(cd $WT && git apply /verif/${KEEP:-out/mutb_keep}/$id/patch$n.diff) || { echo "$id-b$n: patch does not apply"; git -C /repo worktree remove --force $WT; exit 3; }
cd /verif
VERIF_REPO=$WT timeout 3000 ./check $id $tier > out/oneb_$id-$n.log 2>&1; rc=$?
echo "$id-b$n rc=$rc violations=$(grep -c '^VIOLATION' out/oneb_$id-$n.log) :: $(grep -A1 '^VIOLATION' out/oneb_$id-$n.log | grep -v '^VIOLATION' | head -1 | cut -c1-200) $(grep INCONCLUSIVE out/oneb_$id-$n.log | cut -c1-200)"
git -C /repo worktree remove --force $WT
