#!/bin/bash
# usage: tools/trymutant.sh <patch.diff> <prop> [<prop>...]   (applies to /repo, runs quick checks, undoes)
patch=$1; shift
cd /repo && git status --short | grep -v '^??' | grep -q . && { echo "repo dirty"; exit 3; }
git -C /repo apply "$patch" || { echo "patch does not apply"; exit 3; }
trap 'git -C /repo checkout -- . ' EXIT
cd /verif
for p in "$@"; do
  ./check $p quick > out/mut_$p.log 2>&1; rc=$?
  echo "$(basename $(dirname $patch))/$(basename $patch) $p rc=$rc $(grep -c '^VIOLATION' out/mut_$p.log) violations; $(grep -A1 '^VIOLATION' out/mut_$p.log | grep -v '^VIOLATION' | head -1 | cut -c1-160)"
done
