#!/bin/bash
# Round B: runs every candidate seeded change under ${KEEP:-out/mutb_keep}/<ID>/patchN.diff against the quick check of its
# property in a scratch worktree (VERIF_REPO); /repo itself is never touched. Results: out/matrix_b.log
# usage: tools/matrix_b.sh [ID ...]
WT=${WTBASE:-/tmp/mutb}/matrix
git -C /repo worktree remove --force $WT 2>/dev/null
git -C /repo worktree add -q --detach $WT HEAD || exit 1
LOG=${LOG:-/verif/out/matrix_b.log}
cd /verif
ids="$@"; [ -n "$ids" ] || ids=$(ls ${KEEP:-out/mutb_keep})
for id in $ids; do
  for patch in ${KEEP:-out/mutb_keep}/$id/patch*.diff; do
    n=$(basename $patch .diff | sed 's/patch//')
    (cd $WT && git checkout -q -- . && git clean -fdq && git apply /verif/$patch) || { echo "$id-b$n: patch does not apply" >> $LOG; continue; }
    VERIF_REPO=$WT timeout 2400 ./check $id quick > out/matrixb_$id-$n.log 2>&1; rc=$?
    echo "$id-b$n rc=$rc violations=$(grep -c '^VIOLATION' out/matrixb_$id-$n.log) :: $(grep -A1 '^VIOLATION' out/matrixb_$id-$n.log | grep -v '^VIOLATION' | head -1 | cut -c1-160) $(grep INCONCLUSIVE out/matrixb_$id-$n.log | cut -c1-200)" >> $LOG
  done
done
(cd $WT && git checkout -q -- . && git clean -fdq)
git -C /repo worktree remove --force $WT
echo DONE >> $LOG
