#!/bin/bash
# Runs seeded changes (seeded/<id>/patch.diff) against the quick check of their property in a scratch worktree
# (VERIF_REPO); /repo itself is never touched. usage: tools/matrix_seeded_par.sh <property>; one worktree and one log (out/matrix_seeded_<property>.log) per property, so that several properties can run side by side
WT=/tmp/mutc/matrixs_$1
git -C /repo worktree remove --force $WT 2>/dev/null
git -C /repo worktree add -q --detach $WT HEAD || exit 1
LOG=/verif/out/matrix_seeded_$1.log
cd /verif
props="$@"
for d in seeded/*/; do
  id=$(basename $d); prop=${id%%-*}
  if [ -n "$props" ] && ! echo " $props " | grep -q " $prop "; then continue; fi
  (cd $WT && git checkout -q -- . && git clean -fdq && git apply /verif/$d/patch.diff) || { echo "$id: patch does not apply" >> $LOG; continue; }
  VERIF_REPO=$WT timeout 2400 ./check $prop quick > out/matrixs_$id.log 2>&1; rc=$?
  echo "$id $prop rc=$rc violations=$(grep -c '^VIOLATION' out/matrixs_$id.log) :: $(grep -A1 '^VIOLATION' out/matrixs_$id.log | grep -v '^VIOLATION' | head -1 | cut -c1-140) $(grep INCONCLUSIVE out/matrixs_$id.log | cut -c1-160)" >> $LOG
done
(cd $WT && git checkout -q -- . && git clean -fdq)
git -C /repo worktree remove --force $WT
echo "DONE $props" >> $LOG
