#!/bin/bash
# Runs every seeded change against the quick check of the property it breaks, in a scratch worktree
# (VERIF_REPO), so /repo itself is never touched. Results: out/matrix.log
WT=/tmp/mut/matrix
git -C /repo worktree remove --force $WT 2>/dev/null
git -C /repo worktree add -q --detach $WT HEAD || exit 1
LOG=/verif/out/matrix.log; : > $LOG
cd /verif
for d in seeded/*/; do
  id=$(basename $d); prop=${id%%-*}
  (cd $WT && git checkout -q -- . && git apply /verif/$d/patch.diff) || { echo "$id: patch does not apply" >> $LOG; continue; }
  VERIF_REPO=$WT timeout 2400 ./check $prop quick > out/matrix_$id.log 2>&1; rc=$?
  echo "$id $prop rc=$rc violations=$(grep -c '^VIOLATION' out/matrix_$id.log) :: $(grep -A1 '^VIOLATION' out/matrix_$id.log | grep -v '^VIOLATION' | head -1 | cut -c1-140)" >> $LOG
done
(cd $WT && git checkout -q -- .)
git -C /repo worktree remove --force $WT
echo DONE >> $LOG
