#!/bin/bash
# Confirms every candidate seeded change in a scratch worktree: builds, existing suite passes, demonstration
# fails with the change and passes without it. Results: out/mut_confirm.log
export GOFLAGS=-mod=mod GOPROXY=off GOSUMDB=off GOTOOLCHAIN=local
WT=/tmp/mutc/confirm
git -C /repo worktree remove --force $WT 2>/dev/null
git -C /repo worktree add -q --detach $WT HEAD || exit 1
LOG=/verif/out/mutc_confirm.log; : > $LOG
for d in /verif/out/mutc_keep/*; do
  prop=$(basename $d)
  for patch in $d/patch*.diff; do
    n=$(basename $patch .diff | sed 's/patch//')
    demo=$d/demo${n}_test.go
    [ -f "$demo" ] || { echo "$prop $n: no demo" >> $LOG; continue; }
    pkgdir=$(head -3 $demo | grep -o 'src/[a-z]*' | head -1)
    [ -n "$pkgdir" ] || pkgdir=src/accountant
    cd $WT && git checkout -q -- . && git clean -fdq
    if ! git apply --check $patch 2>/dev/null; then echo "$prop $n: does not apply to HEAD" >> $LOG; continue; fi
    cp $demo $WT/$pkgdir/zz_demo_test.go
    tname=$(grep -o 'func Test[A-Za-z0-9_]*' $demo | head -1 | sed 's/func //')
    (cd $WT/$pkgdir && timeout 600 go test -vet=off -count=1 -run "Test(ZZ)?Demo|$tname" . > /tmp/mutc/c_clean.log 2>&1); clean=$?
    git apply $patch
    (cd $WT/src && go build ./... > /tmp/mutc/c_build.log 2>&1); build=$?
    (cd $WT/$pkgdir && timeout 600 go test -vet=off -count=1 -run "Test(ZZ)?Demo|$tname" . > /tmp/mutc/c_mut.log 2>&1); mut=$?
    rm -f $WT/$pkgdir/zz_demo_test.go
    (cd $WT/src && timeout 1500 go test -vet=off -count=1 ./... > /tmp/mutc/c_suite.log 2>&1); suite=$?
    echo "$prop $n: build=$build demo_clean=$clean demo_mutant=$mut suite_with_mutant=$suite pkg=$pkgdir" >> $LOG
  done
done
cd /repo && git worktree remove --force $WT
echo DONE >> $LOG
