#!/bin/bash
# usage: tools/confirm_mutants_d.sh <property>   (round D; one scratch worktree per property so that properties run in parallel)
# Confirms every candidate of out/mutd_keep/<property>: builds, existing suite passes, demonstration fails with the
# change and passes without it. Result lines: out/mutd_confirm_<property>.log
export GOFLAGS=-mod=mod GOPROXY=off GOSUMDB=off GOTOOLCHAIN=local
prop=$1
WT=/tmp/mutd/confirm_$prop
d=/verif/out/mutd_keep/$prop
git -C /repo worktree remove --force $WT 2>/dev/null
git -C /repo worktree add -q --detach $WT HEAD || exit 1
LOG=/verif/out/mutd_confirm_$prop.log; : > $LOG
for patch in $d/patch*.diff; do
  n=$(basename $patch .diff | sed 's/patch//')
  demo=$d/demo${n}_test.go
  [ -f "$demo" ] || { echo "$prop $n: no demo" >> $LOG; continue; }
  pkgdir=$(head -3 $demo | grep -o 'src/[a-z]*' | head -1)
  [ -n "$pkgdir" ] || pkgdir=src/accountant
  cd $WT && git checkout -q -- . && git clean -fdq
  if ! git apply --check $patch 2>/dev/null; then echo "$prop $n: does not apply to HEAD" >> $LOG; continue; fi
  cp $demo $WT/$pkgdir/zz_demo_test.go
  tname=$(grep -o 'func Test[A-Za-z0-9_]*' $demo | head -1 | sed 's/func //')
  (cd $WT/$pkgdir && timeout 600 go test -vet=off -count=1 -run "$tname" . > $WT/../c_clean_$prop$n.log 2>&1); clean=$?
  git apply $patch
  (cd $WT/src && go build ./... > $WT/../c_build_$prop$n.log 2>&1); build=$?
  (cd $WT/$pkgdir && timeout 600 go test -vet=off -count=1 -run "$tname" . > $WT/../c_mut_$prop$n.log 2>&1); mut=$?
  rm -f $WT/$pkgdir/zz_demo_test.go
  (cd $WT/src && timeout 1500 go test -vet=off -count=1 ./... > $WT/../c_suite_$prop$n.log 2>&1); suite=$?
  echo "$prop $n: build=$build demo_clean=$clean demo_mutant=$mut suite_with_mutant=$suite pkg=$pkgdir" >> $LOG
done
cd /repo && git worktree remove --force $WT
echo DONE >> $LOG
