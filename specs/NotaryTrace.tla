----------------------------- MODULE NotaryTrace -----------------------------
(***************************************************************************)
(* Calls recorded against the real notary server judged with Notary.tla:    *)
(* the specification's state is advanced by the operation each call stands  *)
(* for; the reply class, the observed awaiting cache and the observed       *)
(* ledger content must be what the operation gives (Conforms), and the C16  *)
(* invariants are evaluated in every state reached.                         *)
(***************************************************************************)
EXTENDS Notary, Json

CONSTANT TraceFile
VARIABLES pos, obs
TLog == ndJsonDeserialize(TraceFile)
ToSet(s) == {s[i] : i \in DOMAIN s}

TIss == ("c1" :> "A") @@ ("c2" :> "A") @@ ("p1" :> "A") @@ ("c3" :> "A")
TRcv == ("c1" :> "B") @@ ("c2" :> "B") @@ ("p1" :> "B") @@ ("c3" :> "B")
TData == ("c1" :> TRUE) @@ ("c2" :> TRUE) @@ ("p1" :> FALSE) @@ ("c3" :> TRUE)
TSpice == ("c1" :> FALSE) @@ ("c2" :> TRUE) @@ ("p1" :> TRUE) @@ ("c3" :> TRUE)
\* c3: a contract with spice whose data is one byte longer than the node accepts
TOver == ("c1" :> FALSE) @@ ("c2" :> FALSE) @@ ("p1" :> FALSE) @@ ("c3" :> TRUE)

OutOf(s, op) ==
    CASE op.op = "propose" -> ProposeOut(s, op.t, op.by, op.form)
      [] op.op = "confirm" -> ConfirmOut(s, op.t, op.issBy, op.rcvBy)
      [] op.op = "reject"  -> RejectOut(s, op.t, op.a, op.by)
      [] op.op = "data"    -> DataOut(s, op.a)
      [] op.op = "expire"  -> ExpireOut(s)
      [] op.op \in {"throttleexpire", "throttlelift"} -> ThrottleExpireOut(s)
      [] op.op = "waiting" -> WaitingOut(s, op.a, IF "cid" \in DOMAIN op THEN op.cid ELSE 0, op.by)
      [] op.op = "indag"   -> InDagOut(s, op.a, IF "cid" \in DOMAIN op THEN op.cid ELSE 0, op.by)
      [] op.op = "balance" -> BalanceOut(s, op.a, op.d, op.by)
      [] op.op = "saved"   -> SavedOut(s, op.t, op.a, op.by)

TInit == st = InitState /\ pend = {} /\ pos = 1 /\ obs = [conf |-> TRUE, a |-> "none"]

Count(seq, x) == Cardinality({i \in DOMAIN seq : seq[i] = x})

TNext ==
    /\ pos <= Len(TLog)
    /\ pos' = pos + 1
    /\ UNCHANGED pend
    /\ LET ev == TLog[pos] IN
       CASE ev.a = "Reset" -> st' = InitState /\ obs' = [conf |-> TRUE, a |-> "Reset"]
         [] ev.a = "Call" ->
              LET o == OutOf(st, ev.op) IN
              /\ st' = o.s
              /\ obs' = [conf |-> /\ o.res = ev.res
                                  /\ o.s.awaiting = ToSet(ev.awaiting) /\ o.s.sealed = ToSet(ev.sealed)
                                  /\ (ev.op.op = "waiting" /\ o.res = "ok") => o.out = ToSet(ev.out),
                         a |-> ev.op.op]
         [] ev.a = "Burst" ->   \* n identical requests at once: at most one takes effect
              LET o == OutOf(st, ev.op) IN
              /\ st' = o.s
              /\ obs' = [conf |-> /\ Count(ev.results, "ok") = (IF o.res = "ok" THEN 1 ELSE 0)
                                  /\ o.s.awaiting = ToSet(ev.awaiting) /\ o.s.sealed = ToSet(ev.sealed)
                                  \* confirm / reject take the awaiting entry out of the cache in one step: whoever
                                  \* comes second is answered exactly like a later repetition of the request, and in
                                  \* particular never gets as far as the ledger
                                  /\ ev.op.op \in {"confirm", "reject"} =>
                                        \A k \in DOMAIN ev.results : ev.results[k] \in {o.res, OutOf(o.s, ev.op).res},
                         a |-> "burst"]
TSpec == TInit /\ [][TNext]_<<st, pend, pos, obs>>

Conforms == obs.conf
\* C16_AtMostOnce on the recorded run (a Reset starts a new server)
T_AtMostOnce ==
    [][(pos <= Len(TLog) /\ TLog[pos].a # "Reset") =>
          ((st.sealed \ {st.bad}) \subseteq st'.sealed /\ \A t \in st.sealed \ {st.bad} : st'.how[t] = st.how[t])]_<<st, pend, pos, obs>>
Accepted == TLCGet("stats").diameter = Len(TLog) + 1
=============================================================================
