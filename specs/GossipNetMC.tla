----------------------------- MODULE GossipNetMC -----------------------------
EXTENDS GossipNet
\* item profiles
K1 == ("v1" :> "vrx")
P1 == ("v1" :> "none")
K2 == ("v1" :> "vrx") @@ ("t1" :> "trx")
P2 == ("v1" :> "none") @@ ("t1" :> "none")
KC == ("v1" :> "vrx") @@ ("v2" :> "vrx")          \* v2 builds on v1
PC == ("v1" :> "none") @@ ("v2" :> "v1")
OrigAt(items, n) == [i \in items |-> n]
O1a == OrigAt({"v1"}, "n1")
O2a == OrigAt({"v1", "t1"}, "n1")
O2b == ("v1" :> "n1") @@ ("t1" :> "n2")
O2c == ("v1" :> "n1") @@ ("t1" :> "n4")
OCa == OrigAt({"v1", "v2"}, "n1")
\* with n3 adversarial the origin stays honest
=============================================================================
