----------------------------- MODULE LedgerTrace -----------------------------
(***************************************************************************)
(* Trace validation of recorded executions of the real accounting books     *)
(* against Ledger.tla.                                                      *)
(*                                                                          *)
(* The log (NDJSON, one event per executed action, written by the ledger    *)
(* driver) carries for every mutating action the observed result class and  *)
(* the full projected post-state of the touched node.  The trace            *)
(* specification therefore has exactly one behaviour: it walks the log and  *)
(* adopts the recorded state after each event.  Two kinds of judgement are  *)
(* made by TLC on that behaviour:                                           *)
(*   - the property invariants and step properties of Ledger.tla, evaluated *)
(*     in every state / on every step the REAL SYSTEM went through;         *)
(*   - conformance: the recorded outcome of the event must be a member of   *)
(*     the outcome set the specification's action allows from the recorded  *)
(*     pre-state (variable `obs`, invariant Conforms).  The weight /        *)
(*     throughput counters are adopted from the log and not compared.       *)
(* Several recorded executions are concatenated; a Reset event starts each. *)
(***************************************************************************)
EXTENDS Ledger, Json

CONSTANTS TraceFile, Strict

VARIABLES pos, obs, trxu,
          prev,   \* the books as they were before the last truncation step (for queries that raced with it)
          taint   \* a cancelled truncation has left half-moved vertices behind and the node lives on (until the next Reset)

tvars == <<book, vtx, inflight, pos, obs, trxu, prev, taint>>

TLog == ndJsonDeserialize(TraceFile)

\* constants of Ledger.tla are taken from the first Reset event (the runner groups executions
\* with equal constants into one file)
Cfg0 == TLog[1].cfg
TNode == ToSet(Cfg0.nodes)
TWallet == ToSet(Cfg0.wallets)
TGR == Cfg0.gr
TSupply == Cfg0.supply
TTruncDepth == Cfg0.truncDepth

TrxIdsOf(cfg) == {cfg.trx[i].id : i \in DOMAIN cfg.trx} \cup {"g"}
TrxOf(tid) == CHOOSE t \in trxu : t.id = tid

GoodObs == [conf |-> TRUE, keyok |-> TRUE, authok |-> TRUE, sameok |-> TRUE, clean |-> TRUE,
            view |-> TRUE, read |-> TRUE, a |-> "none"]

TInit ==
    /\ book = [n \in Node |-> EmptyBook({"g"})]
    /\ vtx = <<>>
    /\ inflight = [n \in Node |-> {}]
    /\ pos = 1
    /\ obs = GoodObs
    /\ trxu = {}
    /\ prev = [n \in Node |-> EmptyBook({"g"})]
    /\ taint = FALSE

----------------------------------------------------------------------------
(* reading the log *)

Pairs(s) == {<<s[i][1], s[i][2]>> : i \in DOMAIN s}

LBook(st, ids) ==
    [live |-> ToSet(st.live),
     edges |-> Pairs(st.edges),
     stored |-> ToSet(st.stored),
     ck |-> [w \in Wallet |-> st.ck[w]],
     index |-> [t \in ids |-> IF \E p \in Pairs(st.index) : p[1] = t
                              THEN (CHOOSE p \in Pairs(st.index) : p[1] = t)[2] ELSE NoV],
     trusted |-> ToSet(st.trusted),
     parked |-> [i \in 1..Len(st.parked) |-> [v |-> st.parked[i][1], rep |-> st.parked[i][2]]],
     wgt |-> st.wgt, thr |-> st.thr, loaded |-> st.loaded, gen |-> st.gen]

LVtx(r) == [trx |-> [id |-> r.trx.id, iss |-> r.trx.iss, rcv |-> r.trx.rcv, amt |-> r.trx.amt, data |-> r.trx.data, nc |-> r.trx.nc],
            sealer |-> r.sealer, l |-> r.l, r |-> r.r, w |-> r.w, ok |-> r.ok]

\* equality of books up to the weight / throughput counters
Same(a, b) == [a EXCEPT !.wgt = 0, !.thr = 0] = [b EXCEPT !.wgt = 0, !.thr = 0]
\* the weight / throughput window after an admission
SameWindow(a, b) == a.wgt = b.wgt /\ a.thr = b.thr

\* what the snapshot says beyond the abstract book: the library's own tip / root sets, the
\* self-authentication flags and names the driver could not resolve
ObsOf(ev, conf) ==
    IF "st" \in DOMAIN ev
    THEN [conf |-> conf, keyok |-> ev.st.keyok, authok |-> ev.st.authok, sameok |-> ev.st.sameok,
          clean |-> ev.st.alien = <<>> /\ "sterr" \notin DOMAIN ev,
          view |-> LET b == LBook(ev.st, {"g"}) IN
                   ToSet(ev.st.tips) = TipsOf(b) /\ ToSet(ev.st.roots) = RootsOf(b),
          read |-> TRUE, a |-> ev.a]
    ELSE [GoodObs EXCEPT !.conf = conf, !.a = ev.a, !.clean = "sterr" \notin DOMAIN ev]

IsStrict(a) == a \in Strict

----------------------------------------------------------------------------
(* one action per event kind *)

Ids == DOMAIN book[CHOOSE n \in Node : TRUE].index

Adopt(n, st) == book' = [book EXCEPT ![n] = LBook(st, Ids)]

EvReset(ev) ==
    /\ book' = [n \in Node |-> EmptyBook(TrxIdsOf(ev.cfg))]
    /\ vtx' = <<>>
    /\ inflight' = [n \in Node |-> {}]
    /\ trxu' = {[id |-> ev.cfg.trx[i].id, iss |-> ev.cfg.trx[i].iss, rcv |-> ev.cfg.trx[i].rcv,
                 amt |-> ev.cfg.trx[i].amt, data |-> ev.cfg.trx[i].data, nc |-> ev.cfg.trx[i].nc] : i \in DOMAIN ev.cfg.trx}
    /\ obs' = [GoodObs EXCEPT !.a = "Reset",
               !.conf = /\ ToSet(ev.cfg.nodes) = Node /\ ToSet(ev.cfg.wallets) = Wallet /\ ev.cfg.gr = GR
                        /\ ev.cfg.supply = Supply /\ ev.cfg.truncDepth = TruncDepth]

EvGenesis(ev) ==
    LET n == ev.n
        o == GenesisOutcome(book[n], n, Len(vtx) + 1)
        lb == LBook(ev.st, Ids)
        conf == /\ o.res = ev.res
                /\ Same(o.b, lb)
                /\ o.res = "ok" => /\ Len(ev.new) = 1 /\ LVtx(ev.new[1]) = GenesisVtx(n)
                                   /\ lb.wgt = o.b.wgt /\ lb.thr = o.b.thr
    IN /\ Adopt(n, ev.st)
       /\ vtx' = IF Len(ev.new) = 1 THEN Append(vtx, LVtx(ev.new[1])) ELSE vtx
       /\ obs' = ObsOf(ev, IsStrict(ev.a) => conf)
       /\ UNCHANGED <<inflight, trxu>>

OpRec(k, t, v, rep) == [k |-> k, t |-> t, v |-> v, rep |-> rep]

EvProposePre(ev) ==
    LET n == ev.n
        t == TrxOf(ev.t)
        conf == ProposeGuard(book[n], n, t) = ev.res
    IN /\ inflight' = IF ev.res = "pass"
                      THEN [inflight EXCEPT ![n] = @ \cup {OpRec("P", t, NoV, 0)}] ELSE inflight
       /\ obs' = ObsOf(ev, IsStrict(ev.a) => conf)
       /\ UNCHANGED <<book, vtx, trxu>>

EvProposeCommit(ev) ==
    LET n == ev.n
        t == TrxOf(ev.t)
        lb == LBook(ev.st, Ids)
        outs == IF "cancel" \in DOMAIN ev THEN ProposeCancelledOutcomes(book[n], n, t, Len(vtx) + 1)
                ELSE ProposeCommitOutcomes(book[n], n, t, Len(vtx) + 1)
        full == \E o \in outs :
                    /\ o.res = ev.res
                    /\ Same(o.b, lb)
                    /\ o.res = "ok" => (Len(ev.new) = 1 /\ LVtx(ev.new[1]) = o.new[1])
                    /\ o.res = "ok" => SameWindow(o.b, lb)
        \* with many tips (the endurance behaviours of C13: hundreds of parked vertices released at once) the outcome
        \* set ranges over all orders of the tips and cannot be enumerated; the judgement is then made directly:
        \* only tips left the graph, a sealed vertex stands on tips that are valid and were not dropped, nothing else moved
        b == book[n]
        D == b.live \ lb.live
        few == /\ D \subseteq TipsOf(b)
               /\ lb.stored = b.stored /\ lb.ck = b.ck /\ lb.parked = b.parked
               /\ IF ev.res = "ok"
                  THEN /\ Len(ev.new) = 1
                       /\ LET nv == LVtx(ev.new[1]) IN
                            /\ {nv.l, nv.r} \subseteq TipsOf(b) \ D
                            /\ \A x \in {nv.l, nv.r} : ValidLeaf(b, x)
                            /\ nv.w = Max2(V(nv.l).w, V(nv.r).w) + 1 /\ nv.trx = t /\ nv.sealer = n
                            /\ lb.live = (b.live \ D) \cup {Len(vtx) + 1}
                  ELSE lb.live = b.live \ D
        conf == IF Cardinality(TipsOf(b)) <= 6 THEN full ELSE few
    IN /\ Adopt(n, ev.st)
       /\ vtx' = IF Len(ev.new) = 1 THEN Append(vtx, LVtx(ev.new[1])) ELSE vtx
       /\ inflight' = [inflight EXCEPT ![n] = @ \ {OpRec("P", t, NoV, 0)}]
       /\ obs' = ObsOf(ev, IsStrict(ev.a) => conf)
       /\ UNCHANGED trxu

EvCraft(ev) ==
    /\ vtx' = Append(vtx, LVtx(ev.new[1]))
    /\ obs' = [GoodObs EXCEPT !.a = "Craft", !.conf = ev.new[1].id = Len(vtx) + 1]
    /\ UNCHANGED <<book, inflight, trxu>>

EvDeliverPre(ev) ==
    LET n == ev.n
        v == ev.v
        front == DeliverFrontGuard(book[n], v)
        g == IF front # "pass" THEN front ELSE DeliverGuard(book[n], v)
    IN /\ inflight' = IF ev.res = "pass"
                      THEN [inflight EXCEPT ![n] = @ \cup {OpRec("D", T(v), v, 0)}] ELSE inflight
       /\ obs' = ObsOf(ev, IsStrict(ev.a) => g = ev.res)
       /\ UNCHANGED <<book, vtx, trxu>>

EvDeliverCommit(ev) ==
    LET n == ev.n
        v == ev.v
        lb == LBook(ev.st, Ids)
        outs == IF "cancel" \in DOMAIN ev THEN DeliverCancelledOutcomes(book[n], v, ev.rep)
                ELSE {DeliverCommitOutcome(book[n], v, ev.rep)}
        conf == \E o \in outs : o.res = ev.res /\ Same(o.b, lb) /\ (o.res = "ok" => SameWindow(o.b, lb))
    IN /\ Adopt(n, ev.st)
       /\ inflight' = [inflight EXCEPT ![n] = @ \ {OpRec("D", T(v), v, ev.rep)}]
       /\ obs' = ObsOf(ev, IsStrict(ev.a) => conf)
       /\ UNCHANGED <<vtx, trxu>>

\* a forged copy of the genuine vertex v (same hash and seal, rewritten parents / weight / amount): it is refused by
\* the first check that applies - known vertex, known transaction, or else the signatures - and changes nothing
EvDeliverForged(ev) ==
    LET n == ev.n
        v == ev.v
        b == book[n]
        lb == LBook(ev.st, Ids)
        front == DeliverFrontGuard(b, v)
        want == IF front # "pass" THEN front
                ELSE IF T(v).iss = b.gen THEN "genesisissuer"
                ELSE IF v \in b.live \cup b.stored THEN "exists"
                ELSE IF b.index[T(v).id] # NoV THEN "trxexists"
                ELSE "rejected"
    IN /\ Adopt(n, ev.st)
       /\ obs' = ObsOf(ev, ev.res = want /\ Same(b, lb) /\ SameWindow(b, lb))
       /\ UNCHANGED <<vtx, inflight, trxu>>

\* one turn of the retry loop: pop the head and run the pre-lock checks of addLeafMemorized
EvTickPop(ev) ==
    LET n == ev.n IN
    IF ev.res = "empty"
    THEN /\ obs' = ObsOf(ev, IsStrict(ev.a) => book[n].parked = <<>>)
         /\ UNCHANGED <<book, vtx, inflight, trxu>>
    ELSE LET m == Head(book[n].parked)
             b1 == [book[n] EXCEPT !.parked = Tail(@)]
             lb == LBook(ev.st, Ids)
             conf == /\ book[n].parked # <<>>
                     /\ m.v = ev.v /\ m.rep = ev.rep
                     /\ DeliverGuard(b1, ev.v) = ev.res
                     /\ Same(b1, lb)
         IN /\ Adopt(n, ev.st)
            /\ inflight' = IF ev.res = "pass"
                           THEN [inflight EXCEPT ![n] = @ \cup {OpRec("D", T(ev.v), ev.v, ev.rep)}] ELSE inflight
            /\ obs' = ObsOf(ev, IsStrict(ev.a) => conf)
            /\ UNCHANGED <<vtx, trxu>>

EvTruncate(ev) ==
    LET n == ev.n
        lb == LBook(ev.st, Ids)
        conf == \E o \in TruncateOutcomes(book[n]) : o.res = ev.res /\ Same(o.b, lb)
    IN /\ Adopt(n, ev.st)
       /\ obs' = ObsOf(ev, IsStrict(ev.a) => conf)
       /\ UNCHANGED <<vtx, inflight, trxu>>

\* the book is normally not adopted: the node is shutting down and takes no further operation (its state may hold a
\* vertex both in the graph and in the store, which no other action can produce).  Some behaviours let the node live
\* on ("cont") to see what the next truncation does with the half-moved vertices.
EvTruncateCancelled(ev) ==
    LET n == ev.n
        lb == LBook(ev.st, Ids)
        conf == \E o \in TruncateCancelledOutcomes(book[n]) : o.res = ev.res /\ Same(o.b, lb)
    IN /\ obs' = [GoodObs EXCEPT !.a = ev.a, !.conf = IsStrict(ev.a) => conf]
       /\ IF "cont" \in DOMAIN ev THEN Adopt(n, ev.st) ELSE UNCHANGED book   \* the driver lets the node live on
       /\ UNCHANGED <<vtx, inflight, trxu>>

EvTrust(ev) ==
    LET n == ev.n
        lb == LBook(ev.st, Ids)
        want == IF ev.a = "Trust" THEN [book[n] EXCEPT !.trusted = @ \cup {ev.addr}]
                                  ELSE [book[n] EXCEPT !.trusted = @ \ {ev.addr}]
    IN /\ Adopt(n, ev.st)
       /\ obs' = ObsOf(ev, IsStrict(ev.a) => (ev.res = "ok" /\ Same(want, lb)))
       /\ UNCHANGED <<vtx, inflight, trxu>>

EvBalance(ev) ==
    LET n == ev.n
        known == ev.wl \in Wallet
        outs == IF known THEN BalanceOutcomes(book[n], ev.wl)
                ELSE IF TipsOf(book[n]) = {} THEN {[res |-> "error", val |-> 0]} ELSE {[res |-> "ok", val |-> 0]}
        \* a graph that holds a vertex with a non-canonical amount (only a node that is NOT loaded can: the left-over of an
        \* aborted load from a forged stream) has no balances to speak of: the amount is not a number of units
        junk == \E v \in book[n].live : T(v).nc
        conf == /\ ev.unchanged
                /\ junk \/ \E o \in outs : o.res = ev.res /\ (o.res = "ok" => o.val = ev.val)
    IN /\ obs' = [GoodObs EXCEPT !.a = ev.a, !.conf = IsStrict(ev.a) => conf]
       /\ UNCHANGED <<book, vtx, inflight, trxu>>

\* a balance query that overlapped a truncation takes effect before it or after it
EvBalanceRaced(ev) ==
    LET n == ev.n
        outs == BalanceOutcomes(book[n], ev.wl) \cup BalanceOutcomes(prev[n], ev.wl)
        conf == \E o \in outs : o.res = ev.res /\ (o.res = "ok" => o.val = ev.val)
    IN /\ obs' = [GoodObs EXCEPT !.a = ev.a, !.conf = IsStrict("Balance") => conf]
       /\ UNCHANGED <<book, vtx, inflight, trxu>>

EvHistory(ev) ==
    LET n == ev.n
        outs == IF ev.wl \in Wallet THEN HistoryOutcomes(book[n], ev.wl)
                ELSE IF TipsOf(book[n]) = {} THEN {[res |-> "error", out |-> {}]} ELSE {[res |-> "ok", out |-> {}]}
        conf == ev.unchanged /\ ev.nodup /\ \E o \in outs : o.res = ev.res /\ (o.res = "ok" => o.out = ToSet(ev.out))
    IN /\ obs' = [GoodObs EXCEPT !.a = ev.a, !.conf = IsStrict("Balance") => conf]
       /\ UNCHANGED <<book, vtx, inflight, trxu>>

EvReadTrx(ev) ==
    LET n == ev.n
        o == ReadTrxOutcome(book[n], ev.t)
        conf == o.res = ev.res /\ ev.same
    IN /\ obs' = [GoodObs EXCEPT !.a = ev.a, !.read = IsStrict(ev.a) => conf]
       /\ UNCHANGED <<book, vtx, inflight, trxu>>

EvReadVertex(ev) ==
    LET n == ev.n
        conf == ReadVertexOutcome(book[n], ev.v) = ev.res /\ ev.same
    IN /\ obs' = [GoodObs EXCEPT !.a = ev.a, !.read = IsStrict(ev.a) => conf]
       /\ UNCHANGED <<book, vtx, inflight, trxu>>

\* a delivery / a proposal that reached the node while it was still loading the DAG: refused, the node is not loaded
EvDuringLoad(ev) ==
    /\ obs' = [GoodObs EXCEPT !.a = ev.a, !.conf = (~book[ev.n].loaded => ev.res = "notloaded")]
    /\ UNCHANGED <<book, vtx, inflight, trxu>>

\* LoadDag of the recorded stream order into node m
EvLoad(ev) ==
    LET m == ev.m
        lb == LBook(ev.st, Ids)
        outs == LoadOutcomes(book[m], ev.order)
        conf == \E o \in outs :
                   /\ o.res = ev.res
                   /\ IF o.res = "abort"
                      THEN /\ lb.loaded = FALSE
                           /\ lb.live = o.b.live
                      ELSE Same(o.b, lb) /\ (o.res = "ok" => lb.wgt = o.b.wgt /\ lb.thr = o.b.thr)
        srcOK == Same(LBook(ev.src, Ids), book[ev.n]) /\ ToSet(ev.order) \subseteq 1..Len(vtx)
        \* a stream the driver did not edit hands over exactly the source's live vertices, each once
        \* (through the channel, or through the gossip server, the proto mapping and updateDag)
        whole == (ev.kind = "" /\ ev.res = "ok") => (ToSet(ev.order) = book[ev.n].live /\ Len(ev.order) = Cardinality(book[ev.n].live))
        \* the transport is faithful: what reaches the loading book is what the peer's server sent, in that order, nothing
        \* dropped, repeated or filtered on the way (a prefix of it when the book gave up and stopped reading)
        wire == ("via" \in DOMAIN ev) => (IsPrefix(ev.order, ev.sent) /\ (ev.res = "ok" => ev.order = ev.sent))
    IN /\ Adopt(m, ev.st)
       /\ obs' = [ObsOf(ev, IsStrict(ev.a) => (conf /\ srcOK /\ whole /\ wire)) EXCEPT !.a = IF ev.kind = "" THEN "Load" ELSE "LoadEdited"]
       /\ UNCHANGED <<vtx, inflight, trxu>>

\* two nodes that were offered the same vertices hold the same ledger and nothing is left parked
EvCompare(ev) ==
    LET a == book[ev.n] b == book[ev.m]
        conf == /\ a.live = b.live /\ a.edges = b.edges /\ a.stored = b.stored /\ a.ck = b.ck
                /\ a.index = b.index /\ a.gen = b.gen /\ a.loaded = b.loaded
                /\ a.parked = <<>> /\ b.parked = <<>>
    IN /\ obs' = [GoodObs EXCEPT !.a = ev.a, !.conf = IsStrict(ev.a) => conf]
       /\ UNCHANGED <<book, vtx, inflight, trxu>>

EvWedged(ev) ==
    /\ obs' = [GoodObs EXCEPT !.a = "Wedged", !.conf = FALSE]
    /\ UNCHANGED <<book, vtx, inflight, trxu>>

TNext ==
    /\ pos <= Len(TLog)
    /\ pos' = pos + 1
    /\ prev' = IF TLog[pos].a = "Truncate" THEN book ELSE prev
    /\ taint' = IF TLog[pos].a = "Reset" THEN FALSE
                ELSE IF TLog[pos].a = "TruncateCancelled" /\ "cont" \in DOMAIN TLog[pos] THEN TRUE ELSE taint
    /\ LET ev == TLog[pos] IN
       CASE ev.a = "Reset"         -> EvReset(ev)
         [] ev.a = "Genesis"       -> EvGenesis(ev)
         [] ev.a = "ProposePre"    -> EvProposePre(ev)
         [] ev.a = "ProposeCommit" -> EvProposeCommit(ev)
         [] ev.a = "Craft"         -> EvCraft(ev)
         [] ev.a = "DeliverPre"    -> EvDeliverPre(ev)
         [] ev.a = "DeliverCommit" -> EvDeliverCommit(ev)
         [] ev.a = "DeliverForged" -> EvDeliverForged(ev)
         [] ev.a = "TickPop"       -> EvTickPop(ev)
         [] ev.a = "Truncate"      -> EvTruncate(ev)
         [] ev.a = "TruncateCancelled" -> EvTruncateCancelled(ev)
         [] ev.a \in {"Trust", "Untrust"} -> EvTrust(ev)
         [] ev.a = "Balance"       -> EvBalance(ev)
         [] ev.a = "BalanceRaced"  -> EvBalanceRaced(ev)
         [] ev.a = "History"       -> EvHistory(ev)
         [] ev.a = "ReadTrx"       -> EvReadTrx(ev)
         [] ev.a = "ReadVertex"    -> EvReadVertex(ev)
         [] ev.a = "DuringLoad"    -> EvDuringLoad(ev)
         [] ev.a = "Load"          -> EvLoad(ev)
         [] ev.a = "Compare"       -> EvCompare(ev)
         [] ev.a = "Wedged"        -> EvWedged(ev)

TSpec == TInit /\ [][TNext]_tvars

----------------------------------------------------------------------------
(* verdicts *)

\* C07 on recorded behaviours: cancellation of a truncation is outside the property's quantifier; what a cancelled
\* truncation and the truncations after it do is judged by conformance (TruncateCancelledOutcomes, TruncateOutcomes)
C07_T == [][(NotReset /\ ~taint /\ ~taint') => C07_Step]_tvars

\* C14 on recorded behaviours: a load from a stream the driver edited (a vertex removed, repeated or added) is judged
\* by conformance to LoadOutcomes only - a stream that merely lacks a tip is a valid earlier ledger of the peer, which
\* no node can tell from a complete one; every other successful load reproduces the source
C14_T == [][(NotReset /\ obs'.a # "LoadEdited") => C14_Step]_tvars

\* the recorded outcome of the last event is one the specification allows
Conforms == obs.conf
\* every graph / store key is the hash of the vertex under it, every held vertex re-authenticates
\* and is byte-identical to the vertex that was created (C09), nothing unnamed appears
SelfAuthentic == obs.keyok /\ obs.authok /\ obs.sameok /\ obs.clean
\* the library's tip / root sets are the ones the edge list implies
ViewConsistent == obs.view
\* lookups by hash return the original content
ReadsOK == obs.read

\* acceptance: the whole log was consumed
Accepted == TLCGet("stats").diameter - 1 = Len(TLog) \/ TLCGet("stats").diameter = Len(TLog) + 1

TView == <<book, vtx, inflight, pos, obs, trxu, prev>>
=============================================================================
