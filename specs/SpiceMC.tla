------------------------------ MODULE SpiceMC ------------------------------
(* Exhaustive equivalence of the transcribed Go algorithms with the reference semantics: one initial
   state per operand tuple, the invariants compare the two results. *)
EXTENDS Spice

VARIABLES op, x, y, z
CanonMel == {m \in Mel : Canon(m)}

Init ==
    \/ op = "supply" /\ x \in CanonMel /\ y \in CanonMel /\ z = [c |-> 0, s |-> 0]
    \/ op = "transfer" /\ x \in CanonMel /\ y \in CanonMel /\ z \in CanonMel
Next == UNCHANGED <<op, x, y, z>>
Spec == Init /\ [][Next]_<<op, x, y, z>>

\* C05: exact, atomic, canonical
SupplyExact == op = "supply" => SupplyGo(x, y) = SupplyRef(x, y)
TransferExact == op = "transfer" => TransferGo(x, y, z) = TransferRef(x, y, z)
\* a consequence worth stating on its own: value is conserved by every successful transfer
TransferConserves ==
    op = "transfer" => LET r == TransferGo(x, y, z) IN
        r.ok => Val(r.from) + Val(r.to) = Val(y) + Val(z) /\ Canon(r.from) /\ Canon(r.to)
=============================================================================
