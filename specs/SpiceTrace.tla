----------------------------- MODULE SpiceTrace -----------------------------
(***************************************************************************)
(* Results of the real spice functions at the real constants (Base = 10^18, *)
(* uint64 fields) judged against the reference semantics of Spice.tla.      *)
(* TLC integers are 32 bit, so values are little-endian sequences of six    *)
(* base-10^9 limbs: a Melange [c, s] with c, s given as three limbs each is *)
(* the number s + c * 10^18, i.e. c shifted by two limbs - no               *)
(* multiplication is needed and 10^18 and 2^64 are exact.                   *)
(***************************************************************************)
EXTENDS Integers, Sequences, TLC, Json

CONSTANT TraceFile
VARIABLES pos, okv

TLog == ndJsonDeserialize(TraceFile)

B9 == 1000000000
Zero6 == <<0, 0, 0, 0, 0, 0>>
Pad6(l3) == <<l3[1], l3[2], l3[3], 0, 0, 0>>
Shift2(l3) == <<0, 0, l3[1], l3[2], l3[3], 0>>

RECURSIVE AddFrom(_, _, _, _)
AddFrom(a, b, i, carry) ==
    IF i > 6 THEN <<>>
    ELSE LET t == a[i] + b[i] + carry IN <<t % B9>> \o AddFrom(a, b, i + 1, t \div B9)
AddL(a, b) == AddFrom(a, b, 1, 0)

RECURSIVE LessFrom(_, _, _)
LessFrom(a, b, i) == IF i = 0 THEN FALSE ELSE IF a[i] # b[i] THEN a[i] < b[i] ELSE LessFrom(a, b, i - 1)
Less(a, b) == LessFrom(a, b, 6)
Leq(a, b) == a = b \/ Less(a, b)

Val(m) == AddL(Pad6(m.s), Shift2(m.c))
Base6 == <<0, 0, 1, 0, 0, 0>>                       \* 10^18
Limit6 == <<0, 0, 709551616, 446744073, 18, 0>>     \* 2^64 * 10^18
Canon(m) == Less(Pad6(m.s), Base6)
Fits(v) == Less(v, Limit6)

\* reference semantics (Spice.tla SupplyRef / TransferRef) on limb numbers
SupplyOK(e) ==
    LET sum == AddL(Val(e.m), Val(e.a)) IN
    IF Fits(sum) THEN e.ok /\ Val(e.m2) = sum /\ Canon(e.m2)
    ELSE ~e.ok /\ e.m2 = e.m

TransferOK(e) ==
    LET sum == AddL(Val(e.to), Val(e.a)) IN
    IF Leq(Val(e.a), Val(e.from)) /\ Fits(sum)
    THEN /\ e.ok
         /\ AddL(Val(e.from2), Val(e.a)) = Val(e.from)       \* from2 = from - a, exactly
         /\ Val(e.to2) = sum
         /\ Canon(e.from2) /\ Canon(e.to2)
    ELSE ~e.ok /\ e.from2 = e.from /\ e.to2 = e.to

Init == pos = 1 /\ okv = TRUE
Next ==
    /\ pos <= Len(TLog)
    /\ pos' = pos + 1
    /\ LET e == TLog[pos] IN
       okv' = IF e.op = "supply" THEN SupplyOK(e) ELSE TransferOK(e)
Spec == Init /\ [][Next]_<<pos, okv>>

\* C05: every recorded result is the one exact, atomic, canonical arithmetic gives
C05_ExactAtomicCanonical == okv
Accepted == TLCGet("stats").diameter = Len(TLog) + 1
=============================================================================
