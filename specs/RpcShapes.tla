------------------------------ MODULE RpcShapes ------------------------------
(***************************************************************************)
(* Request-shape contract of the notary, gossip and webhook RPCs (C15).     *)
(*                                                                          *)
(* A request is abstracted to the CLASS of each of its fields (absent /     *)
(* empty / short / exact / long byte strings, absent / present              *)
(* sub-messages, well-formed / malformed addresses ...).  The contract:     *)
(*   - every shape has a defined response: a reply or an error, never a     *)
(*     crash;                                                               *)
(*   - a shape with a field in a class the handler cannot possibly accept   *)
(*     (MustReject) is answered with an error;                              *)
(*   - an error leaves ledger, awaiting cache and peer table unchanged.     *)
(* TLC enumerates the shape space (every field against an otherwise valid   *)
(* request, every pair of fields, and the full product for the four-field   *)
(* SignedHash requests); the shape driver builds each one concretely, sends *)
(* it to the real handler and RpcShapesTrace judges the recorded outcome.   *)
(***************************************************************************)
EXTENDS Integers, FiniteSets, Sequences, TLC, Json

\* field kinds and their classes; the first class of each kind is the valid baseline
Classes(kind) ==
    CASE kind = "hash"  -> <<"exact", "nil", "empty", "short1", "short31", "long33", "huge">>
      [] kind = "sig"   -> <<"exact", "nil", "empty", "short", "long", "huge">>
      [] kind = "addr"  -> <<"valid", "empty", "garbage", "wrongkeylen", "other">>
      [] kind = "sub"   -> <<"present", "nil">>
      [] kind = "data"  -> <<"small", "nil", "empty", "huge">>
      [] kind = "str"   -> <<"small", "empty", "huge">>
      [] kind = "u64"   -> <<"one", "zero", "max">>
      [] kind = "list"  -> <<"one", "nil", "garbageentry", "many">>

\* message types: field name -> kind
MsgFields(msg) ==
    CASE msg = "SignedHash" -> [address |-> "addr", data |-> "hash", hash |-> "hash", signature |-> "sig"]
      [] msg = "Transaction" -> [subject |-> "str", data |-> "data", hash |-> "hash", created |-> "u64", receiver |-> "addr",
                                 issuer |-> "addr", rsig |-> "sig", isig |-> "sig", spice |-> "sub"]
      [] msg = "ConnectionData" -> [address |-> "addr", url |-> "str", created |-> "u64", digest |-> "hash", signature |-> "sig"]
      [] msg = "Address" -> [public |-> "addr"]
      [] msg = "VrxMsg" -> [vertex |-> "sub", vhash |-> "hash", left |-> "hash", right |-> "hash", vsig |-> "sig", signer |-> "addr",
                            trx |-> "sub", thash |-> "hash", spice |-> "sub", isig |-> "sig", gossipers |-> "list"]
      [] msg = "TrxMsg" -> [trx |-> "sub", thash |-> "hash", spice |-> "sub", isig |-> "sig", issuer |-> "addr", gossipers |-> "list"]

Rpcs ==
    { [name |-> "notary.Propose", msg |-> "Transaction"], [name |-> "notary.Confirm", msg |-> "Transaction"],
      [name |-> "notary.Reject", msg |-> "SignedHash"], [name |-> "notary.Waiting", msg |-> "SignedHash"],
      [name |-> "notary.Saved", msg |-> "SignedHash"], [name |-> "notary.Balance", msg |-> "SignedHash"],
      [name |-> "notary.TransactionsInDAG", msg |-> "SignedHash"], [name |-> "notary.Data", msg |-> "Address"],
      [name |-> "gossip.Announce", msg |-> "ConnectionData"], [name |-> "gossip.Discover", msg |-> "ConnectionData"],
      [name |-> "gossip.GossipVrx", msg |-> "VrxMsg"], [name |-> "gossip.GossipTrx", msg |-> "TrxMsg"],
      [name |-> "gossip.GetVertex", msg |-> "SignedHash"], [name |-> "webhooks.Webhooks", msg |-> "SignedHash"] }

Baseline(msg) == [f \in DOMAIN MsgFields(msg) |-> Classes(MsgFields(msg)[f])[1]]
Range(s) == {s[i] : i \in DOMAIN s}
Deviations(shape, msg) == {f \in DOMAIN shape : shape[f] # Baseline(msg)[f]}

\* the shapes that are enumerated: at most `Width` fields away from the valid request (all fields for SignedHash)
Shapes(msg, width) ==
    LET F == MsgFields(msg)
        B == Baseline(msg)
        Alt(f) == Range(Classes(F[f])) \ {B[f]}
    IN UNION { { [f \in DOMAIN F |-> IF f \in D THEN ch[f] ELSE B[f]] :
                 ch \in {c \in [D -> UNION {Alt(f) : f \in D}] : \A f \in D : c[f] \in Alt(f)} }
               : D \in {X \in SUBSET DOMAIN F : Cardinality(X) <= width} }

\* classes no handler can accept for that kind of field (the request cannot authenticate / cannot be decoded)
Unacceptable(kind) ==
    CASE kind = "hash" -> {"nil", "empty", "short1", "short31"}
      [] kind = "sig"  -> {"nil", "empty", "short", "long", "huge"}
      [] kind = "addr" -> {"empty", "garbage", "wrongkeylen"}
      [] kind = "sub"  -> {"nil"}
      [] OTHER -> {}

\* fields whose bad class must make THIS rpc fail (fields the handler really reads before it can succeed)
Checked(rpc) ==
    CASE rpc = "notary.Propose" -> {"hash", "issuer", "isig", "spice", "subject", "receiver"}
      [] rpc = "notary.Confirm" -> {"hash", "issuer", "isig", "rsig", "receiver", "spice", "subject"}
      [] rpc \in {"notary.Reject", "notary.Waiting", "notary.Saved", "notary.Balance", "notary.TransactionsInDAG",
                  "gossip.GetVertex", "webhooks.Webhooks"} -> {"address", "hash", "signature"}
      [] rpc \in {"gossip.Announce", "gossip.Discover"} -> {"address", "digest", "signature"}
      [] rpc = "notary.Data" -> {}
      [] rpc = "gossip.GossipVrx" -> {"vertex", "vhash", "trx"}
      [] rpc = "gossip.GossipTrx" -> {"trx", "thash"}

MustReject(rpc, msg, shape) ==
    \E f \in DOMAIN shape : f \in Checked(rpc) /\ shape[f] \in Unacceptable(MsgFields(msg)[f])

\* ---- enumeration run: one initial state per (rpc, shape) ----
CONSTANT Width
VARIABLES rpc, shape
Init == \E r \in Rpcs : rpc = r /\ shape \in Shapes(r.msg, IF r.msg \in {"SignedHash", "Address"} THEN 9 ELSE Width)
Next == UNCHANGED <<rpc, shape>>
Spec == Init /\ [][Next]_<<rpc, shape>>
\* the contract is total: every enumerated shape has an expectation
Total == MustReject(rpc.name, rpc.msg, shape) \in BOOLEAN
\* the same run hands the enumerated shapes to the driver
Emit == PrintT(<<"SHAPE", ToJson([rpc |-> rpc.name, msg |-> rpc.msg, shape |-> shape,
                                  must |-> MustReject(rpc.name, rpc.msg, shape)])>>)
=============================================================================
