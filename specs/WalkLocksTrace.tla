--------------------------- MODULE WalkLocksTrace ---------------------------
(***************************************************************************)
(* Observations of real ledger operations (lock driver) judged against what *)
(* WalkLocks.tla establishes for the repaired protocol: every operation     *)
(* returns (EveryOpReturns), leaves no graph walker behind                  *)
(* (NoAbandonedWalker / NoLeak), never sends on a closed channel            *)
(* (NoSendOnClosed), and every later operation still completes.             *)
(* The graph library is third-party code without hooks, so the walker side  *)
(* is observed from outside: goroutine profile and liveness probes.         *)
(***************************************************************************)
EXTENDS Integers, Sequences, TLC, Json

CONSTANT TraceFile
VARIABLES pos, obs

TLog == ndJsonDeserialize(TraceFile)

Good == [kind |-> "none", k |-> 0, returned |-> TRUE, panicked |-> FALSE, walkers |-> 0, probesok |-> TRUE]

Init == pos = 1 /\ obs = Good
Next ==
    /\ pos <= Len(TLog)
    /\ pos' = pos + 1
    /\ LET e == TLog[pos] IN
       obs' = [kind |-> e.kind, k |-> e.k, returned |-> e.returned, panicked |-> e.panicked,
               walkers |-> e.walkers, probesok |-> e.probesok]
Spec == Init /\ [][Next]_<<pos, obs>>

C08_EveryOpReturns == obs.returned
C08_NoPanic == ~obs.panicked
C08_NoWalkerLeft == obs.walkers = 0
C08_LaterOpsComplete == obs.returned => obs.probesok

Accepted == TLCGet("stats").diameter = Len(TLog) + 1
=============================================================================
