--------------------------- MODULE RpcShapesTrace ---------------------------
(* Outcomes of the enumerated request shapes on the real handlers, judged against the contract of RpcShapes.tla:
   a reply or an error - never a crash; shapes that cannot be accepted are answered with an error; an error
   leaves ledger, awaiting cache and peer table unchanged. *)
EXTENDS Integers, Sequences, TLC, Json

CONSTANT TraceFile
VARIABLES pos, cur
TLog == ndJsonDeserialize(TraceFile)

Init == pos = 1 /\ cur = [outcome |-> "ok", unchanged |-> TRUE, must |-> FALSE]
Next ==
    /\ pos <= Len(TLog)
    /\ pos' = pos + 1
    /\ cur' = [outcome |-> TLog[pos].outcome, unchanged |-> TLog[pos].unchanged, must |-> TLog[pos].must]
Spec == Init /\ [][Next]_<<pos, cur>>

C15_NoCrash == cur.outcome \in {"ok", "error"}
C15_RejectedLeavesStateUnchanged == cur.outcome = "error" => cur.unchanged
C15_UnacceptableIsRejected == cur.must => cur.outcome # "ok"
Accepted == TLCGet("stats").diameter = Len(TLog) + 1
=============================================================================
