------------------------------ MODULE LedgerMC ------------------------------
(***************************************************************************)
(* Bounded model of the accounting books: every interleaving of proposals   *)
(* and gossip deliveries split at the lock boundary, every tip iteration    *)
(* order, crafted foreign vertices, retries, truncation, trust changes and  *)
(* DAG loading, for a small universe of transactions.                        *)
(***************************************************************************)
EXTENDS Ledger, Json

VARIABLES hist,  \* the operations executed so far, for behaviour generation (hidden by VIEW)
          tog    \* number of trust / untrust steps taken

mcvars == <<book, vtx, inflight, hist, tog>>

CONSTANTS
    Sealers,        \* wallets of sealing nodes whose vertices can be crafted outside any book
    MaxV,           \* vertex budget of the world
    MaxInflight,    \* operations per node between pre-lock checks and the lock
    JumpW,          \* extra weights a crafted vertex may claim
    Profile,        \* which transaction universe is used
    MaxCraft,       \* how many crafted vertices the world may contain
    MaxToggle,      \* how many trust / untrust steps a behaviour may contain
    WithCancel      \* TRUE: the caller of a proposal / delivery may go away while tips are validated (bounded model only)

\* The transaction universes.  Amounts are small; Supply = 10 goes to GR.
TrxSingle ==
    { [id |-> "t1", iss |-> "GR", rcv |-> "A",  amt |-> 6, data |-> FALSE, nc |-> FALSE],
      [id |-> "t2", iss |-> "GR", rcv |-> "B",  amt |-> 6, data |-> FALSE, nc |-> FALSE],  \* conflicts with t1
      [id |-> "t3", iss |-> "A",  rcv |-> "B",  amt |-> 4, data |-> FALSE, nc |-> FALSE],
      [id |-> "t4", iss |-> "A",  rcv |-> "A",  amt |-> 3, data |-> FALSE, nc |-> FALSE],  \* self transfer
      [id |-> "t5", iss |-> "B",  rcv |-> "A",  amt |-> 0, data |-> TRUE, nc |-> FALSE],   \* contract only
      [id |-> "t6", iss |-> "A",  rcv |-> "B",  amt |-> 9, data |-> FALSE, nc |-> FALSE] } \* overdraft

TrxRules ==
    { [id |-> "t1", iss |-> "GR", rcv |-> "A",  amt |-> 6, data |-> FALSE, nc |-> FALSE],
      [id |-> "t7", iss |-> "N2", rcv |-> "A",  amt |-> 1, data |-> FALSE, nc |-> FALSE],  \* issued by a node wallet
      [id |-> "t8", iss |-> "N1", rcv |-> "A",  amt |-> 1, data |-> FALSE, nc |-> FALSE],  \* issued by the genesis wallet
      [id |-> "t9", iss |-> "A",  rcv |-> "B",  amt |-> 0, data |-> FALSE, nc |-> FALSE],  \* empty
      [id |-> "t5", iss |-> "B",  rcv |-> "A",  amt |-> 0, data |-> TRUE, nc |-> FALSE],
      [id |-> "t10", iss |-> "A", rcv |-> "B",  amt |-> 1, data |-> TRUE, nc |-> TRUE] }   \* not canonical

TrxTwo ==
    { [id |-> "t1", iss |-> "GR", rcv |-> "A",  amt |-> 10, data |-> FALSE, nc |-> FALSE],
      [id |-> "t2", iss |-> "GR", rcv |-> "B",  amt |-> 10, data |-> FALSE, nc |-> FALSE], \* the same funds again
      [id |-> "t3", iss |-> "A",  rcv |-> "B",  amt |-> 4, data |-> FALSE, nc |-> FALSE] }

TrxDrain ==
    { [id |-> "t1", iss |-> "GR", rcv |-> "A",  amt |-> 10, data |-> FALSE, nc |-> FALSE],  \* every wallet is drained to zero
      [id |-> "t2", iss |-> "A",  rcv |-> "B",  amt |-> 10, data |-> FALSE, nc |-> FALSE],
      [id |-> "t3", iss |-> "B",  rcv |-> "A",  amt |-> 4, data |-> FALSE, nc |-> FALSE],
      [id |-> "t4", iss |-> "A",  rcv |-> "A",  amt |-> 3, data |-> FALSE, nc |-> FALSE],
      [id |-> "t5", iss |-> "B",  rcv |-> "A",  amt |-> 0, data |-> TRUE, nc |-> FALSE],
      [id |-> "t6", iss |-> "A",  rcv |-> "B",  amt |-> 4, data |-> FALSE, nc |-> FALSE] }

TrxU == CASE Profile = "single" -> TrxSingle
          [] Profile = "drain"  -> TrxDrain
          [] Profile = "rules"  -> TrxRules
          [] Profile = "two"    -> TrxTwo

TrxIds == {t.id : t \in TrxU} \cup {"g"}

Init ==
    /\ book = [n \in Node |-> EmptyBook(TrxIds)]
    /\ vtx = <<>>
    /\ inflight = [n \in Node |-> {}]
    /\ hist = <<>>
    /\ tog = 0

H(rec) == hist' = Append(hist, rec) /\ tog' = IF rec.op \in {"trust", "untrust"} THEN tog + 1 ELSE tog
KeyP(n, t) == n \o ":P:" \o t.id
KeyD(n, v) == n \o ":D:" \o ToString(v)

Pending == FoldSet(LAMBDA n, a : a + Cardinality({o \in inflight[n] : o.k = "P"}), 0, Node)
Budget == Len(vtx) + Pending < MaxV

Genesis(n) ==
    /\ vtx = <<>>
    /\ LET o == GenesisOutcome(book[n], n, 1) IN
       /\ o.res = "ok"
       /\ book' = [book EXCEPT ![n] = o.b]
    /\ vtx' = <<GenesisVtx(n)>>
    /\ H([op |-> "genesis", n |-> n, id |-> 1])
    /\ UNCHANGED inflight

ProposePre(n, t) ==
    /\ Budget
    /\ Cardinality(inflight[n]) < MaxInflight
    /\ ProposeGuard(book[n], n, t) = "pass"
    /\ [k |-> "P", t |-> t, v |-> NoV, rep |-> 0] \notin inflight[n]
    /\ inflight' = [inflight EXCEPT ![n] = @ \cup {[k |-> "P", t |-> t, v |-> NoV, rep |-> 0]}]
    /\ H([op |-> "ppre", n |-> n, t |-> t.id, k |-> KeyP(n, t)])
    /\ UNCHANGED <<book, vtx>>

ProposeCommit(n, op) ==
    /\ op \in inflight[n] /\ op.k = "P"
    /\ \E o \in (IF WithCancel THEN ProposeCancelledOutcomes(book[n], n, op.t, Len(vtx) + 1)
                ELSE ProposeCommitOutcomes(book[n], n, op.t, Len(vtx) + 1)) :
         /\ book' = [book EXCEPT ![n] = o.b]
         /\ vtx' = IF o.res = "ok" THEN Append(vtx, o.new[1]) ELSE vtx
    /\ H([op |-> "commit", k |-> KeyP(n, op.t), id |-> Len(vtx) + 1])
    /\ inflight' = [inflight EXCEPT ![n] = @ \ {op}]

DeliverPre(n, v) ==
    /\ v \in 1..Len(vtx)
    /\ Cardinality(inflight[n]) < MaxInflight
    /\ DeliverFrontGuard(book[n], v) = "pass"
    /\ DeliverGuard(book[n], v) = "pass"
    /\ ~\E o \in inflight[n] : o.k = "D" /\ o.v = v
    /\ ~\E i \in 1..Len(book[n].parked) : book[n].parked[i].v = v
    /\ inflight' = [inflight EXCEPT ![n] = @ \cup {[k |-> "D", t |-> T(v), v |-> v, rep |-> 0]}]
    /\ H([op |-> "dpre", n |-> n, v |-> v, k |-> KeyD(n, v)])
    /\ UNCHANGED <<book, vtx>>

DeliverCommit(n, op) ==
    /\ op \in inflight[n] /\ op.k = "D"
    /\ \E o \in (IF WithCancel THEN DeliverCancelledOutcomes(book[n], op.v, op.rep)
                ELSE {DeliverCommitOutcome(book[n], op.v, op.rep)}) :
         book' = [book EXCEPT ![n] = o.b]
    /\ inflight' = [inflight EXCEPT ![n] = @ \ {op}]
    /\ H([op |-> "commit", k |-> KeyD(n, op.v), id |-> 0])
    /\ UNCHANGED vtx

\* one turn of the retry loop: pop the head, run the pre-lock checks of addLeafMemorized
Tick(n) ==
    /\ book[n].parked # <<>>
    /\ Cardinality(inflight[n]) < MaxInflight
    /\ LET m == Head(book[n].parked)
           b1 == [book[n] EXCEPT !.parked = Tail(@)]
       IN /\ book' = [book EXCEPT ![n] = b1]
          /\ inflight' = IF DeliverGuard(b1, m.v) = "pass"
                         THEN [inflight EXCEPT ![n] = @ \cup {[k |-> "D", t |-> T(m.v), v |-> m.v, rep |-> m.rep]}]
                         ELSE inflight
    /\ H([op |-> "tickpre", n |-> n, k |-> KeyD(n, Head(book[n].parked).v)])
    /\ UNCHANGED vtx

\* a vertex sealed by a node outside the model (honest about its signatures, free in everything else)
Crafted == Cardinality({v \in 1..Len(vtx) : V(v).sealer \in Sealers})

Craft(s, t, l, r, w) ==
    /\ Budget
    /\ Crafted < MaxCraft
    /\ vtx # <<>>
    /\ vtx' = Append(vtx, [trx |-> t, sealer |-> s, l |-> l, r |-> r, w |-> w, ok |-> TRUE])
    /\ H([op |-> "craft", s |-> s, t |-> t.id, l |-> l, r |-> r, w |-> w, id |-> Len(vtx) + 1])
    /\ UNCHANGED <<book, inflight>>

Truncate(n) ==
    /\ inflight[n] = {}   \* truncate takes ab.mux; operations waiting at the lock are explored by the Pre/Commit split
    /\ \E o \in TruncateOutcomes(book[n]) :
         /\ o.b # book[n]
         /\ book' = [book EXCEPT ![n] = o.b]
    /\ H([op |-> "truncate", n |-> n])
    /\ UNCHANGED <<vtx, inflight>>

TruncateRacing(n) ==
    /\ \E o \in TruncateOutcomes(book[n]) :
         /\ o.b # book[n]
         /\ book' = [book EXCEPT ![n] = o.b]
    /\ H([op |-> "truncate", n |-> n])
    /\ UNCHANGED <<vtx, inflight>>

Trust(n, a) ==
    /\ tog < MaxToggle
    /\ a \notin book[n].trusted
    /\ book' = [book EXCEPT ![n].trusted = @ \cup {a}]
    /\ H([op |-> "trust", n |-> n, a |-> a])
    /\ UNCHANGED <<vtx, inflight>>

Untrust(n, a) ==
    /\ tog < MaxToggle
    /\ a \in book[n].trusted
    /\ book' = [book EXCEPT ![n].trusted = @ \ {a}]
    /\ H([op |-> "untrust", n |-> n, a |-> a])
    /\ UNCHANGED <<vtx, inflight>>

Load(m, n) ==
    /\ m # n
    /\ ~book[m].loaded /\ book[m].live = {}
    /\ book[n].loaded
    /\ LET s == SetToSeq(book[n].live) IN
       \E o \in LoadOutcomes(book[m], s) : book' = [book EXCEPT ![m] = o.b]
    /\ H([op |-> "load", m |-> m, n |-> n])
    /\ UNCHANGED <<vtx, inflight>>

Next ==
    \/ \E n \in Node : Genesis(n)
    \/ \E n \in Node, t \in TrxU : ProposePre(n, t)
    \/ \E n \in Node : \E op \in inflight[n] : ProposeCommit(n, op) \/ DeliverCommit(n, op)
    \/ \E n \in Node : \E v \in 1..Len(vtx) : DeliverPre(n, v)
    \/ \E n \in Node : Tick(n)
    \/ \E s \in Sealers, t \in TrxU : \E l, r \in 1..Len(vtx) :
          /\ l <= r
          /\ \E w \in {Max2(V(l).w, V(r).w) + 1} \cup JumpW : Craft(s, t, l, r, w)
    \/ \E n \in Node : TruncateRacing(n)
    \/ \E n \in Node, a \in Sealers : Trust(n, a) \/ Untrust(n, a)
    \/ \E m, n \in Node : Load(m, n)

Spec == Init /\ [][Next]_mcvars

\* Behaviour generation (tlc -simulate): the same actions with the crafted vertices narrowed to recent
\* parents so that random walks spend their steps on the ledger, and the behaviour printed as JSON
\* when the walk has used its budget of steps.
CONSTANT GenDepth
GenNext ==
    \/ \E n \in Node : Genesis(n)
    \/ \E n \in Node, t \in TrxU : ProposePre(n, t)
    \/ \E n \in Node : \E op \in inflight[n] : ProposeCommit(n, op) \/ DeliverCommit(n, op)
    \/ \E n \in Node : \E op \in inflight[n] : ProposeCommit(n, op) \/ DeliverCommit(n, op)
    \/ \E n \in Node : \E v \in 1..Len(vtx) : DeliverPre(n, v)
    \/ \E n \in Node : Tick(n)
    \/ \E s \in Sealers, t \in TrxU : \E l, r \in (Len(vtx) - 2)..Len(vtx) :
          /\ l >= 1 /\ l <= r
          /\ \E w \in {Max2(V(l).w, V(r).w) + 1} \cup JumpW : Craft(s, t, l, r, w)
    \/ \E n \in Node : TruncateRacing(n)
    \/ \E n \in Node, a \in Sealers : Trust(n, a) \/ Untrust(n, a)
    \/ \E m, n \in Node : Load(m, n)
GenSpec == Init /\ [][GenNext]_mcvars
GenEmit == Len(hist) < GenDepth \/ PrintT(<<"BEHAVIOUR", ToJson(hist)>>)

\* state space control
CONSTANT MaxThr
StateConstraint == Len(vtx) <= MaxV /\ \A n \in Node : book[n].thr <= MaxThr

View == <<book, vtx, inflight, tog>>
=============================================================================
