------------------------- MODULE BalanceCacheTrace -------------------------
(***************************************************************************)
(* Recorded runs of the REAL notary server (real ledger, real Hippocampus, *)
(* real Flashback) judged against BalanceCache.tla with Async = FALSE (the *)
(* driver lets the handlers' goroutines land before the next request).     *)
(* The ledger's answer is the number a direct CalculateBalance returns at  *)
(* the time of the request (recorded as `ref`, negative when the ledger    *)
(* has no answer); the specification decides whether the reply must be     *)
(* that number, an older cached one, or a refusal.  Where the driver holds *)
(* a save goroutine back (a gate in front of the real cache's SaveBalance) *)
(* that request is an asynchronous step and `Land` is the goroutine        *)
(* landing: observation O-B2 on the real code.                             *)
(***************************************************************************)
EXTENDS BalanceCache, Json, Sequences

CONSTANTS TraceFile
VARIABLES pos, obs
tvars == <<cur, bcache, thr, pend, reply, pos, obs>>

TLog == ndJsonDeserialize(TraceFile)

TInit == Init /\ pos = 1 /\ obs = TRUE

EvReset(ev) ==
    /\ bcache' = [a \in Addr |-> None] /\ thr' = {} /\ pend' = {} /\ reply' = NoReply
    /\ obs' = TRUE

\* the ledger has no number for this address right now: an authentic, unthrottled, uncached request fails
EvBal(ev) ==
    IF ev.ref < 0 /\ ev.a \notin thr /\ ev.auth /\ bcache[ev.a] = None
    THEN /\ thr' = thr \cup {ev.a}
         /\ reply' = [res |-> "processing", a |-> ev.a, v |-> 0, c |-> 0]
         /\ UNCHANGED <<bcache, pend>>
         /\ obs' = (ev.res = "processing")
    ELSE /\ BalanceStepA(ev.a, IF ev.ref < 0 THEN 0 ELSE ev.ref, ev.auth, ev.held)
         /\ obs' = (/\ ev.res = reply'.res /\ (reply'.res = "ok" => ev.val = reply'.v)
                    \* a save goroutine was held back only if the handler started one: an authentic, unthrottled, uncached read
                    /\ ev.held => (reply'.res = "ok" /\ bcache[ev.a] = None))

EvSeal(ev) ==
    IF ev.sealed
    THEN SealStep(ev.i, ev.r, ev.kind) /\ obs' = TRUE
    ELSE UNCHANGED <<bcache, thr, pend, reply>> /\ obs' = TRUE

\* the driver lets the held save goroutines land (at most one per address is held at a time)
EvLand(ev) ==
    LET saves == {p \in pend : p.k = "save"} IN
    /\ bcache' = [a \in Addr |-> IF \E p \in saves : p.a = a THEN (CHOOSE p \in saves : p.a = a).v ELSE bcache[a]]
    /\ pend' = pend \ saves
    /\ UNCHANGED <<thr, reply>>
    /\ obs' = (ev.n = Cardinality(saves))

EvLift(ev) == thr' = {} /\ UNCHANGED <<bcache, pend, reply>> /\ obs' = TRUE

TNext ==
    /\ pos <= Len(TLog)
    /\ pos' = pos + 1
    /\ UNCHANGED cur
    /\ LET ev == TLog[pos] IN
       CASE ev.e = "Reset" -> EvReset(ev)
         [] ev.e = "Bal" -> EvBal(ev)
         [] ev.e = "Seal" -> EvSeal(ev)
         [] ev.e = "Lift" -> EvLift(ev)
         [] ev.e = "Land" -> EvLand(ev)

TSpec == TInit /\ [][TNext]_tvars
Conforms == obs
Accepted == TLCGet("stats").diameter = Len(TLog) + 1
=============================================================================
