------------------------- MODULE BalanceCacheTrace -------------------------
(***************************************************************************)
(* Recorded runs of the REAL notary server (real ledger, real Hippocampus, *)
(* real Flashback) judged against BalanceCache.tla with Async = FALSE (the *)
(* driver lets the handlers' goroutines land before the next request).     *)
(* The ledger's answer is the number a direct CalculateBalance returns at  *)
(* the time of the request (recorded as `ref`, negative when the ledger    *)
(* has no answer); the specification decides whether the reply must be     *)
(* that number, an older cached one, or a refusal.                         *)
(***************************************************************************)
EXTENDS BalanceCache, Json, Sequences

CONSTANTS TraceFile
VARIABLES pos, obs
tvars == <<cur, bcache, thr, pend, reply, pos, obs>>

TLog == ndJsonDeserialize(TraceFile)

TInit == Init /\ pos = 1 /\ obs = TRUE

EvReset(ev) ==
    /\ bcache' = [a \in Addr |-> None] /\ thr' = {} /\ pend' = {} /\ reply' = NoReply
    /\ obs' = TRUE

\* the ledger has no number for this address right now: an authentic, unthrottled, uncached request fails
EvBal(ev) ==
    IF ev.ref < 0 /\ ev.a \notin thr /\ ev.auth /\ bcache[ev.a] = None
    THEN /\ thr' = thr \cup {ev.a}
         /\ reply' = [res |-> "processing", a |-> ev.a, v |-> 0, c |-> 0]
         /\ UNCHANGED <<bcache, pend>>
         /\ obs' = (ev.res = "processing")
    ELSE /\ BalanceStep(ev.a, IF ev.ref < 0 THEN 0 ELSE ev.ref, ev.auth)
         /\ obs' = (ev.res = reply'.res /\ (reply'.res = "ok" => ev.val = reply'.v))

EvSeal(ev) ==
    IF ev.sealed
    THEN SealStep(ev.i, ev.r, ev.kind) /\ obs' = TRUE
    ELSE UNCHANGED <<bcache, thr, pend, reply>> /\ obs' = TRUE

EvLift(ev) == thr' = {} /\ UNCHANGED <<bcache, pend, reply>> /\ obs' = TRUE

TNext ==
    /\ pos <= Len(TLog)
    /\ pos' = pos + 1
    /\ UNCHANGED cur
    /\ LET ev == TLog[pos] IN
       CASE ev.e = "Reset" -> EvReset(ev)
         [] ev.e = "Bal" -> EvBal(ev)
         [] ev.e = "Seal" -> EvSeal(ev)
         [] ev.e = "Lift" -> EvLift(ev)

TSpec == TInit /\ [][TNext]_tvars
Conforms == obs
Accepted == TLCGet("stats").diameter = Len(TLog) + 1
=============================================================================
