------------------------------ MODULE Webhooks ------------------------------
(***************************************************************************)
(* The webhook subscriptions of a node (src/webhooks, src/webhooksserver). *)
(*                                                                         *)
(* A wallet subscribes an endpoint URL for "new awaiting transaction"      *)
(* notifications with the Webhooks RPC: a SignedHash naming the wallet's   *)
(* address, carrying the URL as data, its SHA-256 as hash and a signature  *)
(* of the digest by the key behind the address.  The node keeps ONE URL    *)
(* per address (a later subscription replaces the earlier one).  When the  *)
(* notary publishes "transactions await these receivers", the node POSTs   *)
(* one message to the endpoint of every listed receiver that has one.      *)
(*                                                                         *)
(* One action per critical section of webhooks.Service (each runs under    *)
(* the service's RWMutex): Subscribe = Webhooks RPC -> insertHook,         *)
(* Remove = removeHook, Notify = PostWebhookNewTransaction.  Endpoints     *)
(* going down and coming back are environment actions.                     *)
(*                                                                         *)
(* Not one of the listed properties on its own.  It supplies the C15 check *)
(* with the state "a rejected request leaves unchanged" for the webhook    *)
(* service (the subscription table has no getter: it is observed through   *)
(* the service's own notifications), and states the key-ownership rule of  *)
(* the subscription (in the spirit of C16: only the owner of an address    *)
(* decides where the notifications about it go).                           *)
(***************************************************************************)
EXTENDS Naturals, FiniteSets, TLC

CONSTANTS Wallet,     \* addresses (one of them may play the adversary: it has a key of its own only)
          Url,        \* endpoint URLs
          NoUrl,      \* "no subscription"
          MaxPost     \* bound on the number of messages per endpoint (model checking only)

VARIABLES hook,       \* Wallet -> Url \cup {NoUrl}: the subscription table  (Service.buffer[TriggerNewTransaction])
          up,         \* endpoints that answer
          inbox,      \* Url -> Nat: messages received by each endpoint
          auth,       \* history: <<w, u>> for which a request naming w and u was signed by w's own key
          last        \* outcome of the last step: "ok" | "refused" | "env"

vars == <<hook, up, inbox, auth, last>>

Shape == {"ok", "badhash", "shorthash", "badsig", "badurl", "nil"}

Init == /\ hook = [w \in Wallet |-> NoUrl]
        /\ up = Url
        /\ inbox = [u \in Url |-> 0]
        /\ auth = {}
        /\ last = "env"

\* webhooksserver.Webhooks: nil / short hash -> not authorized; Verify(data, signature, hash, address) recomputes the
\* digest of the data, compares it with the hash, and verifies the signature under the key of the NAMED address;
\* then url.Parse; only then the table is written.
Accepts(w, by, shape) == shape = "ok" /\ by = w

Subscribe(w, u, by, shape) ==
    /\ auth' = IF by = w /\ shape \in {"ok", "badurl"} THEN auth \cup {<<w, u>>} ELSE auth
    /\ IF Accepts(w, by, shape)
       THEN hook' = [hook EXCEPT ![w] = u] /\ last' = "ok"
       ELSE hook' = hook /\ last' = "refused"
    /\ UNCHANGED <<up, inbox>>

\* A subscription request carries no nonce, time stamp or counter: whoever saw a request the owner once signed (the
\* node, anyone on the path) can send the same bytes again at any later time, and the handler accepts them - the
\* owner's earlier choice comes back (observation O-W1; an action of its own so that the trace specification can name it).
Replay(w, u) ==
    /\ <<w, u>> \in auth
    /\ hook' = [hook EXCEPT ![w] = u]
    /\ last' = "ok"
    /\ UNCHANGED <<up, inbox, auth>>

\* webhooks.Service.RemoveWebhook (no RPC reaches it in this repository; the service offers it)
Remove(w) ==
    /\ hook' = [hook EXCEPT ![w] = NoUrl]
    /\ last' = "ok"
    /\ UNCHANGED <<up, inbox, auth>>

\* one message per listed receiver that has a subscription; an endpoint that is down gets nothing and stops nothing
Hits(S, h, live) == [u \in Url |-> Cardinality({w \in S : h[w] = u /\ u \in live})]

Notify(S) ==
    /\ inbox' = [u \in Url |-> inbox[u] + Hits(S, hook, up)[u]]
    /\ last' = "ok"
    /\ UNCHANGED <<hook, up, auth>>

Down(u) == u \in up /\ up' = up \ {u} /\ last' = "env" /\ UNCHANGED <<hook, inbox, auth>>
Up(u) == u \notin up /\ up' = up \cup {u} /\ last' = "env" /\ UNCHANGED <<hook, inbox, auth>>

Next ==
    \/ \E w \in Wallet, u \in Url, by \in Wallet, s \in Shape : Subscribe(w, u, by, s)
    \/ \E w \in Wallet : Remove(w)
    \/ \E w \in Wallet, u \in Url : Replay(w, u)
    \/ \E S \in SUBSET Wallet : S # {} /\ Notify(S)
    \/ \E u \in Url : Down(u) \/ Up(u)

Spec == Init /\ [][Next]_vars

Bound == \A u \in Url : inbox[u] <= MaxPost

TypeOK == /\ hook \in [Wallet -> Url \cup {NoUrl}]
          /\ up \subseteq Url
          /\ inbox \in [Url -> Nat]
          /\ auth \subseteq Wallet \X Url
          /\ last \in {"ok", "refused", "env"}

\* only the owner of an address decides where notifications about it go
W1_OwnerDecides == \A w \in Wallet : hook[w] # NoUrl => <<w, hook[w]>> \in auth

\* a refused request changes nothing (C15 for the webhook service)
W2_RefusedChangesNothing == [][last' = "refused" => hook' = hook /\ inbox' = inbox /\ up' = up]_vars

\* an entry changes only by its owner's request or by a removal
W3_EntryChangesByOwner ==
    [][\A w \in Wallet : hook'[w] # hook[w] => (hook'[w] = NoUrl \/ <<w, hook'[w]>> \in auth')]_vars

\* a notification reaches exactly the current endpoints of the listed receivers: nobody else's, nobody's former one
W4_NotifyExact ==
    [][\A u \in Url : inbox'[u] > inbox[u] => \E w \in Wallet : hook[w] = u /\ u \in up]_vars
=============================================================================
