----------------------------- MODULE Membership -----------------------------
(***************************************************************************)
(* How the peer tables come about: the discovery protocol of the gossip    *)
(* service (Discover / Announce handlers and the joiner's start-up loop    *)
(* updateNodesConnectionsFromGensisNode in src/gossip/gossip.go).          *)
(*                                                                          *)
(* A joiner j sends Discover(j's own signed connection data) to the        *)
(* genesis node g.  g checks that the data is signed by the address it     *)
(* names, enters j -> url(j) in its table and answers with its own entry   *)
(* and its whole table, every entry signed by g.  j takes the entries one  *)
(* by one (skipping its own address and its own URL), checks g's signature *)
(* on each, enters it, and - unless the entry is the genesis node - sends  *)
(* Announce(j's signed data) there; the receiver checks the self-signature *)
(* and enters j.  A failed Announce is logged and skipped.                  *)
(*                                                                          *)
(* One action per critical section: the Discover handler (under g's table  *)
(* lock), one step of the joiner's loop (its Announce handler included:    *)
(* the loop waits for the reply).  Signatures are symbolic: a record       *)
(* [addr, url, by] is valid for signer s iff by = s; the adversary owns    *)
(* the key Adv only, but may replay every record it has seen.              *)
(***************************************************************************)
EXTENDS Integers, FiniteSets, Sequences, TLC

CONSTANTS Node,        \* honest nodes; the genesis node is one of them
          Genesis,
          Adv,         \* the adversary's own address (has a key, runs no node)
          MaxAdv       \* bound on adversary steps

ASSUME Genesis \in Node /\ Adv \notin Node

Addr == Node \cup {Adv}
Url(n) == <<"url", n>>                 \* every node listens on one URL
NoUrl == <<"none">>
Urls == {Url(n) : n \in Node}

\* connection data: address, url, signer of the record
CD(a, u, s) == [addr |-> a, url |-> u, by |-> s]

VARIABLES table,      \* table[n][a]: URL node n gossips to for address a, or NoUrl
          joined,     \* nodes that have started their bootstrap
          todo,       \* todo[j]: entries of the Discover reply the joiner still has to process (a sequence)
          up,         \* nodes whose server is reachable
          wire,       \* every signed record that ever crossed the network (what the adversary can replay)
          nadv

vars == <<table, joined, todo, up, wire, nadv>>

Init ==
    /\ table = [n \in Node |-> [a \in Addr |-> NoUrl]]
    /\ joined = {Genesis}
    /\ todo = [n \in Node |-> <<>>]
    /\ up = Node
    /\ wire = {}
    /\ nadv = 0

SetToSeqOf(S) == CHOOSE s \in [1..Cardinality(S) -> S] : \A i, k \in 1..Cardinality(S) : i # k => s[i] # s[k]

\* ---- the Discover handler at the genesis node, for a request carrying record r ----
DiscoverAt(g, r) ==
    /\ r.by = r.addr                                  \* self-signed (validateSignature with the named address as signer)
    /\ table' = [table EXCEPT ![g][r.addr] = r.url]   \* an existing entry is replaced
Reply(g, tbl) == {CD(g, Url(g), g)} \cup {CD(a, tbl[a], g) : a \in {x \in Addr : tbl[x] # NoUrl}}

\* a node starts: Discover at the genesis node (which has to be up), the reply is queued for the joiner's loop
Join(j) ==
    /\ j \in Node \ joined /\ Genesis \in up
    /\ LET r == CD(j, Url(j), j) IN
       /\ DiscoverAt(Genesis, r)
       /\ LET rep == Reply(Genesis, table'[Genesis]) IN
          /\ todo' = [todo EXCEPT ![j] = SetToSeqOf(rep)]     \* map order: any order (SetToSeqOf is one; Permute below)
          /\ wire' = wire \cup {r} \cup rep
    /\ joined' = joined \cup {j}
    /\ UNCHANGED <<up, nadv>>

\* the reply is processed in the order of a Go map iteration: any entry may come next
Permute(j) ==
    /\ Len(todo[j]) > 1
    /\ \E i \in 2..Len(todo[j]) :
          todo' = [todo EXCEPT ![j] = <<@[i]>> \o SubSeq(@, 1, i - 1) \o SubSeq(@, i + 1, Len(@))]
    /\ UNCHANGED <<table, joined, up, wire, nadv>>

\* one turn of the joiner's loop
Process(j) ==
    /\ todo[j] # <<>>
    /\ LET e == Head(todo[j]) IN
       /\ todo' = [todo EXCEPT ![j] = Tail(@)]
       /\ IF e.addr = j \/ e.url = Url(j) \/ e.by # Genesis
          THEN UNCHANGED <<table, wire>>                       \* own entry, own URL, or not signed by the responder
          ELSE LET p == e.addr
                   ann == CD(j, Url(j), j)
                   \* the Announce goes to the node that LISTENS on e.url (the table is keyed by address, dialled by URL)
                   target == {n \in Node : Url(n) = e.url}
               IN
               /\ wire' = IF e.url # Url(Genesis) THEN wire \cup {ann} ELSE wire
               /\ table' = [n \in Node |->
                              IF n = j THEN [table[j] EXCEPT ![p] = e.url]
                              ELSE IF e.url # Url(Genesis) /\ n \in target /\ n \in up
                                   THEN [table[n] EXCEPT ![j] = Url(j)]      \* Announce handler at the target
                                   ELSE table[n]]
    /\ UNCHANGED <<joined, up, nadv>>

\* a node's server goes away / comes back (Announces to it fail meanwhile and are not repeated)
Down(n) == n \in up /\ n # Genesis /\ up' = up \ {n} /\ UNCHANGED <<table, joined, todo, wire, nadv>>
Up(n) == n \in Node \ up /\ up' = up \cup {n} /\ UNCHANGED <<table, joined, todo, wire, nadv>>

\* ---- the adversary: Announce / Discover with any record it can build or replay ----
AdvRecords == wire \cup {CD(Adv, u, Adv) : u \in Urls} \cup {CD(a, u, Adv) : a \in Node, u \in Urls}
AdvAnnounce(n, r) ==
    /\ nadv < MaxAdv /\ n \in up /\ r \in AdvRecords
    /\ nadv' = nadv + 1
    /\ IF r.by = r.addr THEN table' = [table EXCEPT ![n][r.addr] = r.url] ELSE UNCHANGED table
    /\ UNCHANGED <<joined, todo, up, wire>>

\* the whole bootstrap of j at once (Join followed by every Process step; the steps commute): what the tables are
\* when the joiner's start-up loop returns, given the tables before and the set of reachable nodes
JoinResult(tbl, j, upset) ==
    LET t1 == [tbl EXCEPT ![Genesis][j] = Url(j)]
        useful == {e \in Reply(Genesis, t1[Genesis]) : e.addr # j /\ e.url # Url(j)}
    IN  [n \in Node |->
           IF n = j
           THEN [a \in Addr |-> IF \E e \in useful : e.addr = a THEN (CHOOSE e \in useful : e.addr = a).url ELSE t1[j][a]]
           ELSE IF n # Genesis /\ n \in upset /\ (\E e \in useful : e.url = Url(n))
                THEN [t1[n] EXCEPT ![j] = Url(j)]
                ELSE t1[n]]

Next ==
    \/ \E j \in Node : Join(j) \/ Permute(j) \/ Process(j)
    \/ \E n \in Node, r \in AdvRecords : AdvAnnounce(n, r)

NextWithFailures == Next \/ \E n \in Node : Down(n) \/ Up(n)

Spec == Init /\ [][Next]_vars
SpecF == Init /\ [][NextWithFailures]_vars

----------------------------------------------------------------------------
TypeOK ==
    /\ \A n \in Node, a \in Addr : table[n][a] \in Urls \cup {NoUrl}
    /\ joined \subseteq Node /\ up \subseteq Node

\* M1: an entry for an honest address always carries the URL that address signed itself - whatever is replayed or
\* forged (an honest node signs one URL only in this model; the code has no freshness check: a node that moved can be
\* pointed back to its old URL by a replay - see DESIGN.md)
M1_OnlySelfSignedUrls == \A n \in Node, a \in Node : table[n][a] \in {NoUrl, Url(a)}

\* M2: nobody lists itself
M2_NoSelf == \A n \in Node : table[n][n] = NoUrl

\* M3: when every joiner's loop has finished and nothing failed, the honest nodes form a clique
Done == \A j \in Node : todo[j] = <<>>
M3_CliqueWhenDone == (Done /\ joined = Node) => \A a, b \in Node : a # b => table[a][b] = Url(b)

\* M3 with failures does not hold: a node that was down when a joiner announced itself never learns of the joiner,
\* while the joiner gossips to it (asymmetric link); stated as the property TLC refutes under SpecF
=============================================================================
