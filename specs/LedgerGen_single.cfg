SPECIFICATION GenSpec
CONSTANTS
  Node = {"N1"}
  Wallet = {"N1", "N2", "GR", "A", "B"}
  GR = "GR"
  Supply = 10
  InitThr = 50
  TruncDepth = 2
  MaxParked = 500
  MaxRepeats = 25
  RootRule = "genesis"
  CkSelf = "both"
  Sealers = {"N2"}
  MaxV = 9
  MaxInflight = 2
  JumpW = {}
  Profile = "single"
  GenDepth = 24
  MaxThr = 0
INVARIANT GenEmit
CHECK_DEADLOCK FALSE
