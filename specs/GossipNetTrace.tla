---------------------------- MODULE GossipNetTrace ----------------------------
(***************************************************************************)
(* Deliveries recorded from a virtual network of real gossipers, judged     *)
(* against GossipNet.tla.  The specification's own state is advanced by the *)
(* action that corresponds to each event; what the real node was observed   *)
(* to do (admission, parking, the messages it sent with their decoded       *)
(* gossiper lists) must equal what the action does (invariant Conforms).    *)
(* The C11 / C12 invariants are evaluated in every state reached this way,  *)
(* and at the end of each run the real ledgers and caches are compared with *)
(* the specification's admitted sets.                                        *)
(***************************************************************************)
EXTENDS GossipNet, Json

CONSTANT TraceFile
VARIABLES pos, obs
tvars == <<vars, pos, obs>>

TLog == ndJsonDeserialize(TraceFile)
ToSet(s) == {s[i] : i \in DOMAIN s}
Cfg0 == TLog[1]
TNode == ToSet(Cfg0.nodes)
TBad == ToSet(Cfg0.bad)
TItem == {Cfg0.items[k].id : k \in DOMAIN Cfg0.items}
ItemRec(i) == CHOOSE r \in ToSet(Cfg0.items) : r.id = i
TKind == [i \in TItem |-> ItemRec(i).kind]
TParent == [i \in TItem |-> ItemRec(i).parent]
TOrigin == [i \in TItem |-> ItemRec(i).origin]

LGs(s) == {Entry(s[k].addr, s[k].by, s[k].for) : k \in DOMAIN s}
LMsgs(s) == {Msg(s[k].from, s[k].to, s[k].item, LGs(s[k].gs)) : k \in DOMAIN s}

Good == [conf |-> TRUE, a |-> "none"]

TInit ==
    /\ peers = [n \in Node |-> ToSet(Cfg0.peers[n])]
    /\ flash = [n \in Node |-> {}] /\ adm = [n \in Node |-> {}]
    /\ admc = [n \in Node |-> [i \in Item |-> 0]] /\ parked = [n \in Node |-> {}]
    /\ msgs = {} /\ seen = {} /\ orig = {}
    /\ sent = [n \in Node |-> [i \in Item |-> 0]]
    /\ ndup = 0 /\ nforge = 0 /\ nexp = [n \in Node |-> 0]
    /\ pos = 1 /\ obs = Good

EvReset(ev) ==
    /\ peers' = [n \in Node |-> ToSet(ev.peers[n])]
    /\ flash' = [n \in Node |-> {}] /\ adm' = [n \in Node |-> {}]
    /\ admc' = [n \in Node |-> [i \in Item |-> 0]] /\ parked' = [n \in Node |-> {}]
    /\ msgs' = {} /\ seen' = {} /\ orig' = {}
    /\ sent' = [n \in Node |-> [i \in Item |-> 0]]
    /\ ndup' = 0 /\ nforge' = 0 /\ nexp' = [n \in Node |-> 0]
    /\ obs' = [conf |-> ToSet(ev.nodes) = Node /\ ToSet(ev.bad) = Bad /\ ToSet(ev.items) = ToSet(Cfg0.items), a |-> "Reset"]

\* observed effect at node n equals the effect of the specification's step
Same(n, ev, old) ==
    /\ adm'[n] = ToSet(ev.adm)
    /\ ("parked" \in DOMAIN ev) => {q[1] : q \in parked'[n]} = ToSet(ev.parked)
    \* in-flight messages are a set in the specification: a message equal to one already in flight adds nothing
    /\ msgs' = old \cup LMsgs(ev.new)

EvOriginate(ev) ==
    IF ev.res = "ok" /\ ENABLED Originate(ev.item)
    THEN Originate(ev.item) /\ obs' = [conf |-> Same(ev.n, ev, msgs), a |-> ev.a]
    ELSE UNCHANGED vars /\ obs' = [conf |-> FALSE, a |-> ev.a]

EvReceive(ev) ==
    LET m == Msg(ev.from, ev.to, ev.item, LGs(ev.gs)) IN
    IF m \in msgs
    THEN /\ Receive(m)
         /\ obs' = [conf |-> Same(ev.to, ev, msgs \ {m}) /\ ev.res # "panic", a |-> ev.a]
    ELSE IF m \in seen   \* a second copy of a message the network carried twice
    THEN /\ ReceiveDuplicate(m)
         /\ obs' = [conf |-> Same(ev.to, ev, msgs) /\ ev.res # "panic", a |-> ev.a]
    ELSE UNCHANGED vars /\ obs' = [conf |-> FALSE, a |-> "UnexplainedMessage"]

\* the network delivers a copy of an already delivered message
EvDuplicate(ev) ==
    LET m == Msg(ev.from, ev.to, ev.item, LGs(ev.gs)) IN
    IF m \in seen /\ m \notin msgs
    THEN /\ ReceiveDuplicate(m)
         /\ obs' = [conf |-> Same(ev.to, ev, msgs) /\ ev.res # "panic", a |-> ev.a]
    ELSE UNCHANGED vars /\ obs' = [conf |-> m \in msgs, a |-> ev.a]

EvAbsorb(ev) ==
    LET m == Msg(ev.from, ev.to, ev.item, LGs(ev.gs)) IN
    IF m \in msgs THEN Absorb(m) /\ obs' = [conf |-> TRUE, a |-> ev.a]
    ELSE UNCHANGED vars /\ obs' = [conf |-> m \in seen, a |-> IF m \in seen THEN ev.a ELSE "UnexplainedMessage"]

\* a parent request answered by a peer, followed by the requester's AddLeaf of the parent
EvGet(ev) ==
    LET n == ev.from
        cs == {c \in PI(n) : Parent[c] = ev.want /\ ev.want \notin adm[n]} IN
    IF ev.res = "ok" /\ cs # {}
    THEN \E c \in cs : Pull(n, c) /\ obs' = [conf |-> Same(n, ev, msgs) /\ ev.want \in adm[ev.to], a |-> ev.a]
    ELSE /\ UNCHANGED vars
         /\ obs' = [conf |-> /\ adm[n] = ToSet(ev.adm) /\ PI(n) = ToSet(ev.parked)
                             /\ (ev.res = "ok" => ev.want \in adm[ev.to]) /\ (ev.res = "err" => ev.want \notin adm[ev.to])
                             /\ ev.new = <<>>, a |-> ev.a]

\* one turn of the ledger's orphan retry at node n
EvRetry(ev) ==
    LET n == ev.n IN
    IF ev.item \in Item /\ ENABLED Retry(n, ev.item)
    THEN Retry(n, ev.item) /\ obs' = [conf |-> adm'[n] = ToSet(ev.adm) /\ {q[1] : q \in parked'[n]} = ToSet(ev.parked), a |-> ev.a]
    ELSE IF ev.item \in Item /\ ENABLED RetryDrop(n, ev.item)
    THEN RetryDrop(n, ev.item) /\ obs' = [conf |-> adm'[n] = ToSet(ev.adm) /\ {q[1] : q \in parked'[n]} = ToSet(ev.parked), a |-> ev.a]
    ELSE UNCHANGED vars /\ obs' = [conf |-> adm[n] = ToSet(ev.adm) /\ PI(n) = ToSet(ev.parked), a |-> ev.a]

EvForge(ev) ==
    LET gs == LGs(ev.gs) IN
    /\ msgs' = msgs \cup {Msg(ev.b, ev.to, ev.item, gs)}
    /\ nforge' = nforge + 1
    /\ UNCHANGED <<peers, flash, adm, admc, parked, seen, sent, orig, ndup, nexp>>
    /\ obs' = [conf |-> ev.b \in Bad /\ gs \in ForgeMenu(ev.b, ev.item, ev.b) \cup UNION {ForgeMenu(ev.b, ev.item, v) : v \in Node}, a |-> ev.a]

\* a forged item: the real handler must refuse it, admit nothing, send nothing (and remember the hash)
EvPoison(ev) ==
    IF ENABLED Poison(ev.b, ev.to, ev.item)
    THEN Poison(ev.b, ev.to, ev.item)
         /\ obs' = [conf |-> ev.res = "err" /\ adm[ev.to] = ToSet(ev.adm) /\ ev.new = <<>>, a |-> ev.a]
    ELSE UNCHANGED vars /\ obs' = [conf |-> ev.res = "ok" \/ ev.res = "err", a |-> ev.a]

\* the window of node n has passed (the driver replaces the node's flash memory by an empty one)
EvExpire(ev) ==
    /\ flash' = [flash EXCEPT ![ev.n] = {}]
    /\ nexp' = [nexp EXCEPT ![ev.n] = @ + 1]
    /\ UNCHANGED <<peers, adm, admc, parked, msgs, seen, sent, orig, ndup, nforge>>
    /\ obs' = [conf |-> TRUE, a |-> ev.a]

EvQuiesce(ev) ==
    /\ UNCHANGED vars
    /\ obs' = [conf |-> /\ \A n \in Honest : adm[n] = ToSet(ev.state[n].adm) /\ PI(n) = ToSet(ev.state[n].parked)
                        /\ (ev.inflight = 0 <=> msgs = {}), a |-> ev.a]

TNext ==
    /\ pos <= Len(TLog)
    /\ pos' = pos + 1
    /\ LET ev == TLog[pos] IN
       CASE ev.a = "Reset" -> EvReset(ev)
         [] ev.a = "Originate" -> EvOriginate(ev)
         [] ev.a = "Receive" -> EvReceive(ev)
         [] ev.a = "Duplicate" -> EvDuplicate(ev)
         [] ev.a = "Absorb" -> EvAbsorb(ev)
         [] ev.a = "Get" -> EvGet(ev)
         [] ev.a = "Retry" -> EvRetry(ev)
         [] ev.a = "Forge" -> EvForge(ev)
         [] ev.a = "Expire" -> EvExpire(ev)
         [] ev.a = "Poison" -> EvPoison(ev)
         \* the behaviour asked for a message the real network does not hold: the replay diverged from the model's
         \* run (any difference in what a node SENT was already judged at the event that sent it)
         [] ev.a = "Missing" -> UNCHANGED vars /\ obs' = [conf |-> TRUE, a |-> "MissingMessage"]
         [] ev.a = "Quiesce" -> EvQuiesce(ev)
TSpec == TInit /\ [][TNext]_tvars

Conforms == obs.conf
\* at the end of a run (all delivered, nothing enabled) the C11 / C12 claims about who holds what
AtEnd == obs.a = "Quiesce" /\ msgs = {}
C11_AllReachedAtEnd ==
    AtEnd => \A i \in orig : Origin[i] \in Honest => \A n \in HonestReach(Origin[i]) : i \in adm[n]
C11_AllReachedAtEndModuloF13 ==
    AtEnd => \A i \in orig, n \in Honest : (Origin[i] \in Honest /\ n \in HonestReach(Origin[i]) /\ i \notin adm[n]) =>
        \E r \in Honest : r # Origin[i] /\ ((i \in adm[r] /\ sent[r][i] = 0) \/ i \in PI(r))
C12_AtEndModuloF14 ==
    AtEnd => \A i \in orig, n \in Honest : (Origin[i] \in Honest /\ n \in HonestReach(Origin[i]) /\ i \notin adm[n]) =>
        (i \in flash[n] /\ i \notin PI(n))
Accepted == TLCGet("stats").diameter = Len(TLog) + 1
=============================================================================
