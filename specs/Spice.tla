------------------------------- MODULE Spice -------------------------------
(***************************************************************************)
(* Two-part currency arithmetic (src/spice): a Melange is a pair            *)
(* [c, s] of unsigned 64-bit integers standing for c * Base + s, canonical  *)
(* when s < Base.                                                           *)
(*                                                                          *)
(*  - SupplyRef / TransferRef: the reference semantics on unbounded         *)
(*    integers (exact, atomic, canonical results);                          *)
(*  - SupplyGo / TransferGo: a transcription of the Go algorithms with      *)
(*    explicit wrap-around at 2^64 (here: U) and carry at Base.             *)
(* With the scaled-down constants of SpiceMC TLC checks that the two agree  *)
(* for ALL operand tuples.  CarryCmp selects the carry test of the code:    *)
(*   "lt"  MaxAmount - a.s <  m.s  (pinned code: misses a carry that lands  *)
(*         exactly on Base when the currency part is at its maximum, F7a)   *)
(*   "le"  MaxAmount - a.s <= m.s  (repaired code)                          *)
(***************************************************************************)
EXTENDS Integers

CONSTANTS Base,     \* MaxAmountPerSupplementaryCurrency (10^18 in the code)
          U,        \* 2^64 in the code: both fields are uint64
          CarryCmp

MaxU == U - 1
Mel == [c : 0..MaxU, s : 0..MaxU]
Canon(m) == m.s < Base
Val(m) == m.c * Base + m.s
Wrap(x) == x % U

\* ---- reference semantics (canonical operands) ----
Fits(v) == v < U * Base
OfVal(v) == [c |-> v \div Base, s |-> v % Base]

SupplyRef(m, a) ==
    IF Fits(Val(m) + Val(a)) THEN [ok |-> TRUE, m |-> OfVal(Val(m) + Val(a))]
    ELSE [ok |-> FALSE, m |-> m]

TransferRef(a, from, to) ==
    IF Val(from) >= Val(a) /\ Fits(Val(to) + Val(a))
    THEN [ok |-> TRUE, from |-> OfVal(Val(from) - Val(a)), to |-> OfVal(Val(to) + Val(a))]
    ELSE [ok |-> FALSE, from |-> from, to |-> to]

\* ---- transcription of the Go code ----
CarryHits(room, have) == IF CarryCmp = "lt" THEN room < have ELSE room <= have

\* Base - x on uint64
SubU(x, y) == Wrap(x - y + U)

Normalize(c, s) == IF s >= Base THEN [c |-> Wrap(c + 1), s |-> SubU(s, Base)] ELSE [c |-> c, s |-> s]

SupplyGo(m, a) ==
    IF MaxU - a.c < m.c THEN [ok |-> FALSE, m |-> m]
    ELSE LET c1 == m.c + a.c IN
         IF CarryHits(SubU(Base, a.s), m.s) /\ c1 = MaxU THEN [ok |-> FALSE, m |-> m]
         ELSE [ok |-> TRUE, m |-> Normalize(c1, Wrap(m.s + a.s))]

TransferGo(a, from, to) ==
    IF a.c > from.c THEN [ok |-> FALSE, from |-> from, to |-> to]
    ELSE IF MaxU - a.c < to.c THEN [ok |-> FALSE, from |-> from, to |-> to]
    ELSE LET tc == to.c + a.c
             fc == from.c - a.c IN
         IF CarryHits(SubU(Base, a.s), to.s) /\ tc = MaxU THEN [ok |-> FALSE, from |-> from, to |-> to]
         ELSE IF a.s > from.s
              THEN IF fc = 0 THEN [ok |-> FALSE, from |-> from, to |-> to]
                   ELSE [ok |-> TRUE,
                         from |-> [c |-> fc - 1, s |-> SubU(Wrap(from.s + Base), a.s)],
                         to |-> Normalize(tc, Wrap(to.s + a.s))]
              ELSE [ok |-> TRUE,
                    from |-> [c |-> fc, s |-> from.s - a.s],
                    to |-> Normalize(tc, Wrap(to.s + a.s))]
=============================================================================
