SPECIFICATION Spec
CONSTANTS
  Node = {"N1"}
  Wallet = {"N1", "N2", "GR", "A", "B"}
  GR = "GR"
  Supply = 10
  InitThr = 2
  TruncDepth = 2
  MaxParked = 2
  MaxRepeats = 1
  RootRule = "genesis"
  CkSelf = "both"
  Sealers = {"N2"}
  MaxV = 4
  MaxInflight = 2
  JumpW = {}
  Profile = "single"
  MaxCraft = 1
  MaxToggle = 1
  GenDepth = 0
  MaxThr = 14
CONSTRAINT StateConstraint
VIEW View
INVARIANTS
  TypeOK
  C03_UniqueTrx
  C03_IndexExact
  C09_WellFormed
  C10_SealingRules
PROPERTIES
  C03_Reproposable
  C09_LocalCreate
  C01_NoOverdraftConfirmed
  C01_OnlyTipsDropped
  C07_Transparent
CHECK_DEADLOCK FALSE
