------------------------------ MODULE NotaryGen ------------------------------
(* Call sequences for the notary driver: atomic handler calls of Notary.tla with a history. *)
EXTENDS NotaryMC, Json
VARIABLES hist, nexp
CONSTANT GenDepth
H(rec) == hist' = Append(hist, rec)
Step(o) == st' = o.s /\ UNCHANGED <<pend, nexp>>
GenInit == Init /\ hist = <<>> /\ nexp = 0
GenNext ==
    \/ \E t \in Trx, by \in Addr, f \in Forms :
          Step(ProposeOut(st, t, by, f)) /\ H([op |-> "propose", t |-> t, by |-> by, form |-> f])
    \/ \E t \in Trx, i, r \in Addr :
          Step(ConfirmOut(st, t, i, r)) /\ H([op |-> "confirm", t |-> t, issBy |-> i, rcvBy |-> r])
    \/ \E t \in Trx, a, by \in Addr :
          Step(RejectOut(st, t, a, by)) /\ H([op |-> "reject", t |-> t, a |-> a, by |-> by])
    \/ \E a \in Addr : st.nchal < MaxChal /\ Step(DataOut(st, a)) /\ H([op |-> "data", a |-> a])
    \/ /\ nexp < 1 /\ (\E a \in Addr : st.chal[a].fresh)
       /\ st' = ExpireOut(st).s /\ nexp' = nexp + 1 /\ UNCHANGED pend /\ H([op |-> "expire"])
    \/ \E a \in Addr, cid \in 0..MaxChal, by \in Addr :
          Step(WaitingOut(st, a, cid, by)) /\ H([op |-> "waiting", a |-> a, cid |-> cid, by |-> by])
    \/ \E a \in Addr, cid \in 0..MaxChal, by \in Addr :
          Step(InDagOut(st, a, cid, by)) /\ H([op |-> "indag", a |-> a, cid |-> cid, by |-> by])
    \/ \E a, d, by \in Addr :
          Step(BalanceOut(st, a, d, by)) /\ H([op |-> "balance", a |-> a, d |-> d, by |-> by])
    \/ \E t \in Trx, a, by \in Addr :
          Step(SavedOut(st, t, a, by)) /\ H([op |-> "saved", t |-> t, a |-> a, by |-> by])
GenSpec == GenInit /\ [][GenNext]_<<st, pend, hist, nexp>>
GenEmit == Len(hist) < GenDepth \/ PrintT(<<"BEHAVIOUR", ToJson(hist)>>)
=============================================================================
