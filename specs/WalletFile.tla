----------------------------- MODULE WalletFile -----------------------------
(***************************************************************************)
(* The encrypted wallet file (C20): aeswrapper.Encrypt writes               *)
(* nonce | ciphertext | tag (AES-GCM, the nonce is prepended by Seal),      *)
(* fileoperations.SaveWallet / ReadWallet wrap a GOB-encoded wallet in it.  *)
(*                                                                          *)
(* The file is abstracted to its length and to which byte, if any, differs  *)
(* from what was written; the key to "the key used for saving or not" and   *)
(* to its length class.  ReadOutcome transcribes Decrypt:                   *)
(*   - key length other than 16 / 32: error before anything is sliced;      *)
(*   - data[:nonceSize] - with LenCheck = FALSE (pinned code, F5) a file    *)
(*     shorter than the nonce panics, with LenCheck = TRUE it is an error;  *)
(*   - AEAD axiom: Open succeeds iff nonce, ciphertext, tag and key are all *)
(*     exactly what Seal used (truncation anywhere, one changed byte        *)
(*     anywhere, or another key make it fail); crypto strength is assumed;  *)
(*   - GOB decoding of an authentic plaintext gives the original wallet.    *)
(***************************************************************************)
EXTENDS Integers

CONSTANTS NonceLen, TagLen, CtLen, LenCheck

Full == NonceLen + CtLen + TagLen

\* file: [len, bad] - bad = 0: every present byte is as written; bad = i: byte i differs
\* key:  [same, goodlen]
ReadOutcome(f, k) ==
    IF ~k.goodlen THEN "error"
    ELSE IF f.len < NonceLen THEN (IF LenCheck THEN "error" ELSE "panic")
    ELSE IF f.len = Full /\ f.bad = 0 /\ k.same THEN "ok-same"
    ELSE "error"

\* ---- a small state machine over the file for the bounded run ----
VARIABLES file, written, result

Init == file = [len |-> 0, bad |-> 0] /\ written = FALSE /\ result = "none"

Save ==       \* os.WriteFile of the sealed bytes
    /\ file' = [len |-> Full, bad |-> 0] /\ written' = TRUE /\ result' = "none"
Crash(l) ==   \* the write stops after l bytes (or the file is cut later)
    /\ written /\ l \in 0..Full
    /\ file' = [len |-> l, bad |-> IF file.bad > l THEN 0 ELSE file.bad] /\ UNCHANGED written /\ result' = "none"
Corrupt(i) == \* one byte changes
    /\ written /\ file.bad = 0 /\ i \in 1..file.len
    /\ file' = [file EXCEPT !.bad = i] /\ UNCHANGED written /\ result' = "none"
Read(k) ==
    /\ written
    /\ result' = ReadOutcome(file, k) /\ UNCHANGED <<file, written>>

Keys == [same : BOOLEAN, goodlen : BOOLEAN]
Next ==
    \/ Save
    \/ \E l \in 0..Full : Crash(l)
    \/ \E i \in 1..Full : Corrupt(i)
    \/ \E k \in Keys : Read(k)
Spec == Init /\ [][Next]_<<file, written, result>>

\* C20: the original wallet or an error - never a crash, never another wallet
C20_OriginalOrError == result \in {"none", "ok-same", "error"}
C20_OriginalOnlyFromIntactFile ==
    result = "ok-same" => file.len = Full /\ file.bad = 0
=============================================================================
