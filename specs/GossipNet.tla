------------------------------ MODULE GossipNet ------------------------------
(***************************************************************************)
(* Gossip about gossip (src/gossip): dissemination of vertices and awaiting *)
(* transactions between nodes (C11, C12).                                   *)
(*                                                                          *)
(* A message carries an item and a list of gossiper entries; an entry       *)
(* [addr, by, for] claims address `addr`, was really signed by key `by`     *)
(* over item `for`.  verifyGossipers counts an entry iff by = addr and      *)
(* for = this item (signature over address ++ item hash with the address's  *)
(* own key).  One action per critical section of the handlers:              *)
(*   Originate  runVertexGossipProcess / runTransactionGossipProcess body   *)
(*   Receive    GossipVrx / GossipTrx: flash test-and-set, verification of  *)
(*              the list, self-in-list test, ledger / cache call, signing,  *)
(*              one message per peer that is not in the verified list       *)
(*   Pull       processLackingParent -> peer GetVertex -> AddLeaf           *)
(*   Retry      the ledger's orphan retry admitting a parked vertex         *)
(*   Duplicate  the network delivers a message again                        *)
(* and, for nodes in Bad, adversary actions that send any item they know    *)
(* with any list assembled from garbage, own-key entries under any claimed  *)
(* address, and honest entries lifted from messages they have seen.         *)
(***************************************************************************)
EXTENDS Integers, FiniteSets, Sequences, TLC

CONSTANTS
    Node,       \* node identities (a node is its wallet address)
    Bad,        \* adversarial relays (subset of Node)
    Item,       \* items: vertices and awaiting transactions
    Kind,       \* Item -> {"vrx", "trx"}
    Parent,     \* Item -> Item \cup {NoItem}: the vertex a vertex item builds on ("none": genesis, known everywhere)
    Origin,     \* Item -> Node: where the item is accepted first
    MaxDup,     \* how many duplicate deliveries the network may make
    MaxForge,   \* how many forged messages the adversary may send
    MaxExpire,  \* how many times a node's recent-hash memory may lapse (the 20 s window passing)
    AllowPoison \* whether the adversary may also forge ITEMS: announce a known item's hash with corrupted content.
                \* The recent-hash memory is written before the content is verified, so the honest copy that arrives
                \* later is dropped as a repeat (finding F14).  C12 quantifies over forged LISTS; the action is kept
                \* separate so that both readings can be checked.

VARIABLES
    peers,      \* Node -> SUBSET Node: peer tables (chosen in Init)
    flash,      \* Node -> SUBSET Item: recent-hash memory
    adm,        \* Node -> SUBSET Item: admitted by the ledger (vertices) / saved in the cache (transactions)
    admc,       \* Node -> Item -> number of successful ledger admissions / first saves
    parked,     \* Node -> set of <<item, k>>: vertices parked in the ledger's orphan buffer; the buffer is a list and
                \* takes the same vertex again when it is offered again (k-th copy), e.g. after the window has passed
    msgs,       \* in-flight messages [from, to, item, gs]
    seen,       \* messages already delivered once (candidates for duplication)
    sent,       \* Node -> Item -> number of forwarding rounds
    orig,       \* items already originated
    ndup, nforge,
    nexp        \* Node -> how many times the recent-hash memory of the node has lapsed

vars == <<peers, flash, adm, admc, parked, msgs, seen, sent, orig, ndup, nforge, nexp>>

NoItem == "none"
Honest == Node \ Bad

Entry(a, k, i) == [addr |-> a, by |-> k, for |-> i]
ValidEntry(e, i) == e.by = e.addr /\ e.for = i
Verified(gs, i) == {e \in gs : ValidEntry(e, i)}
Addrs(gs) == {e.addr : e \in gs}

Msg(f, t, i, gs) == [from |-> f, to |-> t, item |-> i, gs |-> gs]

\* symmetric connected peer tables
Symmetric(p) == \A a, b \in Node : b \in p[a] <=> a \in p[b]
RECURSIVE ReachFrom(_, _)
ReachFrom(p, S) == LET N == S \cup UNION {p[n] : n \in S} IN IF N = S THEN S ELSE ReachFrom(p, N)
Connected(p) == \A a \in Node : ReachFrom(p, {a}) = Node

Init ==
    /\ peers \in {p \in [Node -> SUBSET Node] : (\A n \in Node : n \notin p[n]) /\ Symmetric(p) /\ Connected(p)}
    /\ flash = [n \in Node |-> {}]
    /\ adm = [n \in Node |-> {}]
    /\ admc = [n \in Node |-> [i \in Item |-> 0]]
    /\ parked = [n \in Node |-> {}]
    /\ msgs = {} /\ seen = {} /\ orig = {}
    /\ sent = [n \in Node |-> [i \in Item |-> 0]]
    /\ ndup = 0 /\ nforge = 0 /\ nexp = [n \in Node |-> 0]

PI(n) == {p[1] : p \in parked[n]}                         \* the items parked at n
Copies(n, i) == Cardinality({p \in parked[n] : p[1] = i})
ParentKnown(n, i) == Parent[i] = NoItem \/ Parent[i] \in adm[n]

\* the item is accepted at its origin (CreateLeaf / Propose) and handed to the gossip loop
Originate(i) ==
    LET n == Origin[i] IN
    /\ i \notin orig
    /\ Kind[i] = "vrx" => ParentKnown(n, i)
    /\ orig' = orig \cup {i}
    /\ adm' = [adm EXCEPT ![n] = @ \cup {i}]
    /\ admc' = [admc EXCEPT ![n][i] = @ + 1]
    /\ LET gs == {Entry(n, n, i)} IN
       msgs' = msgs \cup {Msg(n, p, i, gs) : p \in peers[n]}
    /\ sent' = [sent EXCEPT ![n][i] = @ + 1]
    /\ UNCHANGED <<peers, flash, parked, seen, ndup, nforge, nexp>>

\* the handler's effect on a message taken out of `pool` (the in-flight set, or the in-flight set plus a redelivered copy)
ReceiveIn(m, pool) ==
    LET n == m.to
        i == m.item
        V == Verified(m.gs, i)
        S == Addrs(V)
        rest == pool \ {m}
        fwd == {Msg(n, p, i, V \cup {Entry(n, n, i)}) : p \in peers[n] \ (S \cup {n})}
    IN
    /\ n \in Honest
    /\ seen' = seen \cup {m}
    /\ IF i \in flash[n]
       THEN \* repeat inside the window: dropped before anything else
            /\ msgs' = rest
            /\ UNCHANGED <<flash, adm, admc, parked, sent>>
       ELSE /\ flash' = [flash EXCEPT ![n] = @ \cup {i}]
            /\ IF n \in S
               THEN \* this node is listed with its own valid signature: nothing to do
                    msgs' = rest /\ UNCHANGED <<adm, admc, parked, sent>>
               ELSE IF Kind[i] = "vrx"
               THEN IF i \in adm[n]
                    THEN \* AddLeaf: already exists -> error, no forwarding
                         msgs' = rest /\ UNCHANGED <<adm, admc, parked, sent>>
                    ELSE IF ~ParentKnown(n, i)
                    THEN \* parked by the ledger, reported as error, no forwarding (the parent is pulled: action Pull)
                         /\ parked' = [parked EXCEPT ![n] = parked[n] \cup {<<i, Copies(n, i) + 1>>}]
                         /\ msgs' = rest /\ UNCHANGED <<adm, admc, sent>>
                    ELSE /\ adm' = [adm EXCEPT ![n] = @ \cup {i}]
                         /\ admc' = [admc EXCEPT ![n][i] = @ + 1]
                         /\ msgs' = rest \cup fwd
                         /\ sent' = [sent EXCEPT ![n][i] = @ + 1]
                         /\ UNCHANGED parked
               ELSE \* transaction: signature check, save (an existing entry is only logged), forward
                    /\ adm' = [adm EXCEPT ![n] = @ \cup {i}]
                    /\ admc' = [admc EXCEPT ![n][i] = IF i \in adm[n] THEN @ ELSE @ + 1]
                    /\ msgs' = rest \cup fwd
                    /\ sent' = [sent EXCEPT ![n][i] = @ + 1]
                    /\ UNCHANGED parked
    /\ UNCHANGED <<peers, orig, nforge, nexp>>

Receive(m) == m \in msgs /\ ReceiveIn(m, msgs) /\ UNCHANGED ndup
\* a duplicate delivered straight away (used by trace validation, where the copy never rests in flight)
ReceiveDuplicate(m) == m \in seen /\ m \notin msgs /\ ReceiveIn(m, msgs \cup {m}) /\ ndup' = ndup + 1

\* a message addressed to an adversarial node is simply consumed (it learns the item and the entries)
Absorb(m) ==
    /\ m \in msgs /\ m.to \in Bad
    /\ msgs' = msgs \ {m}
    /\ seen' = seen \cup {m}
    /\ UNCHANGED <<peers, flash, adm, admc, parked, sent, orig, ndup, nforge, nexp>>

\* the network delivers an already delivered message once more
Duplicate(m) ==
    /\ m \in seen /\ m \notin msgs /\ ndup < MaxDup
    /\ msgs' = msgs \cup {m}
    /\ ndup' = ndup + 1
    /\ UNCHANGED <<peers, flash, adm, admc, parked, seen, sent, orig, nforge, nexp>>

\* processLackingParent: a node holding a parked vertex fetches the missing parent from a peer that has it
Pull(n, c) ==
    LET p == Parent[c] IN
    /\ n \in Honest /\ c \in PI(n) /\ p # NoItem /\ p \notin adm[n]
    /\ \E q \in peers[n] : p \in adm[q]
    /\ IF ParentKnown(n, p)
       THEN adm' = [adm EXCEPT ![n] = @ \cup {p}] /\ admc' = [admc EXCEPT ![n][p] = @ + 1] /\ UNCHANGED parked
       ELSE parked' = [parked EXCEPT ![n] = parked[n] \cup {<<p, Copies(n, p) + 1>>}] /\ UNCHANGED <<adm, admc>>
    /\ UNCHANGED <<peers, flash, msgs, seen, sent, orig, ndup, nforge, nexp>>

\* the ledger's retry loop admits a parked vertex whose parent has arrived (nothing is forwarded)
Retry(n, c) ==
    /\ n \in Honest /\ c \in PI(n) /\ ParentKnown(n, c) /\ c \notin adm[n]
    /\ adm' = [adm EXCEPT ![n] = @ \cup {c}]
    /\ admc' = [admc EXCEPT ![n][c] = @ + 1]
    /\ parked' = [parked EXCEPT ![n] = parked[n] \ {<<c, Copies(n, c)>>}]
    /\ UNCHANGED <<peers, flash, msgs, seen, sent, orig, ndup, nforge, nexp>>
RetryDrop(n, c) ==
    /\ n \in Honest /\ c \in PI(n) /\ c \in adm[n]
    /\ parked' = [parked EXCEPT ![n] = parked[n] \ {<<c, Copies(n, c)>>}]
    /\ UNCHANGED <<peers, flash, adm, admc, msgs, seen, sent, orig, ndup, nforge, nexp>>

\* ---- adversary ----
\* what a bad node can put into a list for item i: garbage, its own key under any address, and entries lifted
\* from messages that passed through it (honest signatures, possibly on other items)
Known(b) == {m \in seen : m.to = b}
KnownItems(b) == {m.item : m \in Known(b)}
Lifted(b) == UNION {m.gs : m \in Known(b)}
ForgeMenuSeq(b, i, victim) ==
    << {},                                                  \* 1: empty list
       {Entry(victim, b, i)},                               \* 2: victim's address signed with the adversary's key
       {Entry(victim, victim, j) : j \in Item \ {i}} \cap Lifted(b),  \* 3: victim's real signature on another item
       {Entry(victim, "garbage", "none")},                  \* 4: undecodable / wrong signature bytes
       Lifted(b) \cup {Entry(b, b, i)},                     \* 5: everything it has seen plus its own valid entry
       {e \in Lifted(b) : e.for = i} \cup {Entry(victim, b, i), Entry(b, b, i)} >>   \* 6
ForgeMenu(b, i, victim) == {ForgeMenuSeq(b, i, victim)[k] : k \in 1..6}

Forge(b, t, i, gs) ==
    /\ b \in Bad /\ t \in peers[b] /\ i \in KnownItems(b) /\ nforge < MaxForge
    /\ msgs' = msgs \cup {Msg(b, t, i, gs)}
    /\ nforge' = nforge + 1
    /\ UNCHANGED <<peers, flash, adm, admc, parked, seen, sent, orig, ndup, nexp>>

\* a message whose item hash is that of i but whose content does not verify: the handler marks the hash as seen,
\* the ledger refuses the content, nothing is admitted or forwarded
Poison(b, t, i) ==
    /\ AllowPoison
    /\ b \in Bad /\ t \in peers[b] /\ t \in Honest /\ i \in KnownItems(b) /\ nforge < MaxForge
    /\ i \notin flash[t]
    /\ flash' = [flash EXCEPT ![t] = @ \cup {i}]
    /\ nforge' = nforge + 1
    /\ UNCHANGED <<peers, adm, admc, parked, msgs, seen, sent, orig, ndup, nexp>>

\* the duplicate-suppression window of node n passes: everything it remembered as seen is forgotten.  A copy that
\* arrives afterwards is processed again: a vertex is refused by the ledger (it is there) and not forwarded, an awaiting
\* transaction is signed and forwarded once more (the failed save is only logged)
FlashExpire(n) ==
    /\ nexp[n] < MaxExpire /\ flash[n] # {}
    /\ flash' = [flash EXCEPT ![n] = {}]
    /\ nexp' = [nexp EXCEPT ![n] = @ + 1]
    /\ UNCHANGED <<peers, adm, admc, parked, msgs, seen, sent, orig, ndup, nforge>>

Next ==
    \/ \E n \in Honest : FlashExpire(n)
    \/ \E b \in Bad, t \in Node, i \in Item : Poison(b, t, i)
    \/ \E i \in Item : Originate(i)
    \/ \E m \in msgs : Receive(m) \/ Absorb(m)
    \/ \E m \in seen : Duplicate(m)
    \/ \E n \in Node, c \in Item : Pull(n, c) \/ Retry(n, c) \/ RetryDrop(n, c)
    \/ \E b \in Bad, t \in Node, i \in Item, v \in Node : \E gs \in ForgeMenu(b, i, v) : Forge(b, t, i, gs)

Quiet ==
    /\ msgs = {} /\ orig = Item
    /\ \A n \in Honest, c \in Item : c \in PI(n) => ~ENABLED Pull(n, c) /\ ~ENABLED Retry(n, c) /\ ~ENABLED RetryDrop(n, c)

Spec == Init /\ [][Next]_vars /\ WF_vars(Next)

----------------------------------------------------------------------------
(* Properties *)

TypeOK == \A m \in msgs : m.to \in peers[m.from]

\* C11: admitted at most once per node; forwarded at most once per node; never sent to a verified gossiper;
\* forwarded only by nodes that admitted the item
C11_AdmittedOnce == \A n \in Honest, i \in Item : admc[n][i] <= 1
\* a vertex is forwarded at most once, an awaiting transaction at most once per duplicate-suppression window
C11_ForwardOnce == \A n \in Honest, i \in Item : sent[n][i] <= (IF Kind[i] = "vrx" THEN 1 ELSE 1 + nexp[n])
C11_NeverToListed == \A m \in msgs : m.from \in Honest => m.to \notin Addrs(Verified(m.gs, m.item))
C11_ForwardOnlyAfterAccept ==
    [][\A m \in msgs' \ msgs : m.from \in Honest /\ m \notin seen => m.item \in adm'[m.from]]_vars
\* every run ends, and when it has ended every node of the (connected, honest) network has every item
C11_Terminates == <>[](msgs = {} /\ orig = Item)
HonestReach(n) == \* nodes connected to n through honest nodes only
    LET hp == [a \in Node |-> IF a \in Honest THEN peers[a] \cap Honest ELSE {}] IN ReachFrom(hp, {n})
C11_AllReached ==
    Quiet => \A i \in Item : Origin[i] \in Honest =>
        \A n \in HonestReach(Origin[i]) : i \in adm[n]
\* signature of known finding F13: an item is missing at a node only when some relay admitted that item through
\* the parent fetch or the orphan retry - paths that do not forward - or still holds it parked
C11_SignatureF13 ==
    \A i \in Item, n \in Honest : (Quiet /\ Origin[i] \in Honest /\ n \in HonestReach(Origin[i]) /\ i \notin adm[n]) =>
        \E r \in Honest : r # Origin[i] /\ ((i \in adm[r] /\ sent[r][i] = 0) \/ i \in PI(r))
C11_AllReachedModuloF13 == C11_AllReached \/ C11_SignatureF13

\* C12: only valid entries count (by construction of Verified; conformance binds it to the code), and an
\* adversarial relay cannot keep an item from an honest node that has an honest path to the origin
C12_NoSuppression == C11_AllReached
\* signature of finding F14: an item is missing at a node only if that node saw its hash without admitting it
C12_SignatureF14 ==
    \A i \in Item, n \in Honest : (Quiet /\ Origin[i] \in Honest /\ n \in HonestReach(Origin[i]) /\ i \notin adm[n]) =>
        (i \in flash[n] /\ i \notin PI(n))
C12_NoSuppressionModuloF14 == C12_NoSuppression \/ C12_SignatureF14
=============================================================================
