------------------------------- MODULE Notary -------------------------------
(***************************************************************************)
(* The notary API (src/notaryserver) seen through its effects on the        *)
(* awaiting-transaction cache, the ledger, the challenge store              *)
(* (dataprovider.Cache), and the read throttle (flash memory) - C16.        *)
(*                                                                          *)
(* A request is abstracted to who really signed it (`by`: the key), what it *)
(* names, and - for transactions - in which FORM the signed bytes are       *)
(* presented:                                                               *)
(*   "issued"   subject and data as the issuer split them                   *)
(*   "resplit"  the same signed byte string with all data bytes moved into  *)
(*              the subject: the signed message is a bare concatenation,    *)
(*              so hash and issuer signature stay valid, but the            *)
(*              transaction no longer carries data (known finding F11)      *)
(* Operations are operators from a state record to an outcome [res, s];     *)
(* the bounded model splits Confirm / Reject at the boundary between the    *)
(* cache removal and the ledger call, where concurrent requests interleave. *)
(***************************************************************************)
EXTENDS Integers, FiniteSets, Sequences, TLC

CONSTANTS Addr,        \* wallets (keys); a request signed `by` k carries a valid signature of k
          Trx,         \* transaction hashes
          Iss, Rcv,    \* Trx -> Addr
          HasData,     \* Trx -> BOOLEAN: the transaction as issued is a contract
          HasSpice,    \* Trx -> BOOLEAN: the transaction transfers spice
          Oversize,    \* Trx -> BOOLEAN: the data is longer than the node accepts for a contract (data_size_bytes)
          MaxChal,     \* challenge identities are 1..MaxChal
          KeepRule     \* "kept": a transaction that Confirm / Reject took out of the cache goes back when the ledger
                       \* fails to seal it for a reason that may pass (repaired code); "lost": it is gone (pinned, F19)

NoChal == [id |-> 0, fresh |-> FALSE]

\* state record: awaiting, sealed : SUBSET Trx; how : Trx -> how it was sealed; chal : Addr -> challenge;
\* throttled : SUBSET Addr; nchal : challenges issued so far; bad : a transfer that sits in the ledger as a tentative
\* tip which does not validate ("none": no such tip).  Propose checks the issuer's signature only, so a transfer that
\* carries junk where the receiver's signature goes is sealed; the NEXT ledger call finds the tip invalid, drops it
\* (the transfer is not sealed any more) and fails - whatever it was called for.
NoTrx == "none"
InitState ==
    [awaiting |-> {}, sealed |-> {}, how |-> [t \in Trx |-> "none"], chal |-> [a \in Addr |-> NoChal],
     throttled |-> {}, nchal |-> 0, bad |-> NoTrx]
DropBad(s) == [s EXCEPT !.sealed = @ \ {s.bad}, !.how = [@ EXCEPT ![s.bad] = "none"], !.bad = NoTrx]

\* forms in which the signed bytes are presented: "issued"; "resplit" (data bytes moved into the subject); "junkrsig" (as
\* issued, and for a transfer 64 bytes of junk where the receiver's signature goes)
IsContract(t, form) == HasData[t] /\ form \in {"issued", "junkrsig"}

Seal(s, t, via) ==
    [s EXCEPT !.sealed = @ \cup {t}, !.how = [@ EXCEPT ![t] = via]]
Unthrottle(s, as) == [s EXCEPT !.throttled = @ \ as]

\* Propose: issuer signature over the bytes; contracts are parked for the receiver, transfers are sealed
ProposeOut(s, t, by, form) ==
    IF by # Iss[t] THEN [res |-> "verification", s |-> s]
    ELSE IF IsContract(t, form)
         THEN IF Oversize[t] THEN [res |-> "processing", s |-> s]     \* refused: neither parked nor sealed
              ELSE IF t \in s.awaiting THEN [res |-> "processing", s |-> s]
              ELSE [res |-> "ok", s |-> [s EXCEPT !.awaiting = @ \cup {t}]]
         ELSE IF t \in s.sealed \/ ~HasSpice[t]    \* the ledger refuses a duplicate and a transaction with neither data nor spice
              THEN [res |-> "processing", s |-> s]
              ELSE IF s.bad # NoTrx THEN [res |-> "processing", s |-> DropBad(s)]      \* the invalid tip is dropped, the call fails
              ELSE LET s2 == Unthrottle(Seal(s, t, IF HasData[t] THEN "propose-resplit" ELSE "propose"), {Iss[t], Rcv[t]}) IN
                   [res |-> "ok", s |-> IF form = "junkrsig" /\ ~HasData[t] THEN [s2 EXCEPT !.bad = t] ELSE s2]

\* Confirm: issuer and receiver signatures, removal from the cache by the receiver, then the ledger
ConfirmOut(s, t, issBy, rcvBy) ==
    IF issBy # Iss[t] \/ rcvBy # Rcv[t] THEN [res |-> "verification", s |-> s]
    ELSE IF t \notin s.awaiting THEN [res |-> "nodata", s |-> s]
    ELSE LET s1 == [s EXCEPT !.awaiting = @ \ {t}] IN
         IF t \in s.sealed THEN [res |-> "processing", s |-> s1]
         ELSE IF s.bad # NoTrx THEN [res |-> "processing", s |-> DropBad(IF KeepRule = "kept" THEN s ELSE s1)]
         ELSE [res |-> "ok", s |-> Unthrottle(Seal(s1, t, "confirm"), {Iss[t], Rcv[t]})]

\* Reject: a request signed by `by` claiming address a for transaction t
RejectOut(s, t, a, by) ==
    IF by # a THEN [res |-> "processing", s |-> s]
    ELSE IF t \notin s.awaiting THEN [res |-> "nodata", s |-> s]
    ELSE IF Rcv[t] # a THEN [res |-> "processing", s |-> s]
    ELSE LET s1 == [s EXCEPT !.awaiting = @ \ {t}] IN
         IF t \in s.sealed THEN [res |-> "processing", s |-> s1]
         ELSE IF s.bad # NoTrx THEN [res |-> "processing", s |-> DropBad(IF KeepRule = "kept" THEN s ELSE s1)]
         ELSE [res |-> "ok", s |-> Unthrottle(Seal(s1, t, "reject"), {Iss[t]})]

DataOut(s, a) ==
    [res |-> "ok", s |-> [s EXCEPT !.nchal = @ + 1, !.chal = [@ EXCEPT ![a] = [id |-> s.nchal + 1, fresh |-> TRUE]]]]

\* time passes beyond the longevity of every outstanding challenge
ExpireOut(s) == [res |-> "ok", s |-> [s EXCEPT !.chal = [a \in Addr |-> [@[a] EXCEPT !.fresh = FALSE]]]]

\* the read throttle forgets its marks after 20 s
ThrottleExpireOut(s) == [res |-> "ok", s |-> [s EXCEPT !.throttled = {}]]

\* Saved: a sealed transaction by hash, to any caller that signs the hash with the key of the address it claims
SavedOut(s, t, a, by) ==
    IF by # a THEN [res |-> "verification", s |-> s]
    ELSE IF t \in s.sealed THEN [res |-> "ok", s |-> s] ELSE [res |-> "processing", s |-> s]

ChallengeOK(s, a, cid) == s.chal[a].id = cid /\ cid # 0 /\ s.chal[a].fresh

\* Waiting: the list of awaiting transactions of address a
WaitingOut(s, a, cid, by) ==
    IF ~ChallengeOK(s, a, cid) \/ by # a THEN [res |-> "verification", s |-> s, out |-> {}]
    ELSE LET l == {t \in s.awaiting : a \in {Iss[t], Rcv[t]}} IN
         IF l = {} THEN [res |-> "processing", s |-> s, out |-> {}] ELSE [res |-> "ok", s |-> s, out |-> l]

\* TransactionsInDAG: throttle mark first (before any authentication), then challenge and signature
InDagOut(s, a, cid, by) ==
    IF a \in s.throttled THEN [res |-> "throttle", s |-> s]
    ELSE LET s1 == [s EXCEPT !.throttled = @ \cup {a}] IN
         IF ~ChallengeOK(s, a, cid) \/ by # a THEN [res |-> "verification", s |-> s1]
         ELSE [res |-> "ok", s |-> s1]

\* Balance: the signed data must be the address itself
BalanceOut(s, a, data, by) ==
    IF a \in s.throttled THEN [res |-> "throttle", s |-> s]
    ELSE LET s1 == [s EXCEPT !.throttled = @ \cup {a}] IN
         IF data # a \/ by # a THEN [res |-> "verification", s |-> s1]
         ELSE [res |-> "ok", s |-> s1]

----------------------------------------------------------------------------
(* Bounded model: handlers interleave where they release control between cache and ledger *)

VARIABLES st, pend   \* pend: removed from the cache, not yet offered to the ledger: set of [t, via]

Init == st = InitState /\ pend = {}

Forms == {"issued", "resplit", "junkrsig"}

Propose(t, by, form) == st' = ProposeOut(st, t, by, form).s /\ UNCHANGED pend
ConfirmRemove(t, issBy, rcvBy) ==
    /\ issBy = Iss[t] /\ rcvBy = Rcv[t] /\ t \in st.awaiting
    /\ st' = [st EXCEPT !.awaiting = @ \ {t}]
    /\ pend' = pend \cup {[t |-> t, via |-> "confirm"]}
RejectRemove(t, a, by) ==
    /\ by = a /\ t \in st.awaiting /\ Rcv[t] = a
    /\ st' = [st EXCEPT !.awaiting = @ \ {t}]
    /\ pend' = pend \cup {[t |-> t, via |-> "reject"]}
LedgerCall(p) ==
    /\ p \in pend
    /\ pend' = pend \ {p}
    /\ st' = IF p.t \in st.sealed THEN st
             ELSE IF st.bad # NoTrx
             THEN DropBad(IF KeepRule = "kept" THEN [st EXCEPT !.awaiting = @ \cup {p.t}] ELSE st)
             ELSE Unthrottle(Seal(st, p.t, p.via), IF p.via = "confirm" THEN {Iss[p.t], Rcv[p.t]} ELSE {Iss[p.t]})
Refused(o) == st' = o.s /\ UNCHANGED pend
Data(a) == st.nchal < MaxChal /\ st' = DataOut(st, a).s /\ UNCHANGED pend
Expire == (\E a \in Addr : st.chal[a].fresh) /\ st' = ExpireOut(st).s /\ UNCHANGED pend
Reads ==
    \/ \E a \in Addr, cid \in 0..MaxChal, by \in Addr : st' = InDagOut(st, a, cid, by).s /\ UNCHANGED pend
    \/ \E a, d, by \in Addr : st' = BalanceOut(st, a, d, by).s /\ UNCHANGED pend

Next ==
    \/ \E t \in Trx, by \in Addr, f \in Forms : Propose(t, by, f)
    \/ \E t \in Trx, i, r \in Addr : ConfirmRemove(t, i, r)
    \/ \E t \in Trx, a, by \in Addr : RejectRemove(t, a, by)
    \/ \E p \in pend : LedgerCall(p)
    \/ \E a \in Addr : Data(a)
    \/ Expire
    \/ Reads
Spec == Init /\ [][Next]_<<st, pend>>

----------------------------------------------------------------------------
(* Properties (C16) *)

\* a transaction that carries data is sealed only through an act of its receiver
C16_ContractNeedsReceiver ==
    \A t \in st.sealed : HasData[t] => st.how[t] \in {"confirm", "reject"}
\* signature of known finding F11: the only other way is the re-split form presented to Propose
C16_SignatureF11 ==
    \A t \in st.sealed : (HasData[t] /\ st.how[t] \notin {"confirm", "reject"}) => st.how[t] = "propose-resplit"
C16_ContractNeedsReceiverModuloF11 == C16_SignatureF11
\* sealing happens at most once and never un-happens; what was removed from the cache is either sealed or was sealed before
\* (a transfer that sits in an invalid tentative tip is not sealed for good: the tip is dropped by the next ledger call)
C16_AtMostOnce == [][(st.sealed \ {st.bad}) \subseteq st'.sealed /\ \A t \in st.sealed \ {st.bad} : st'.how[t] = st.how[t]]_<<st, pend>>
\* C15 / C16 at the notary: a Confirm or Reject that ends in an error has not cost the receiver the awaiting transaction,
\* unless the ledger holds that transaction already (stated over the split handlers of the bounded model)
C16_ErrorKeepsAwaiting ==
    [][\A p \in pend \ pend' : (p.t \notin st'.sealed) => p.t \in st'.awaiting]_<<st, pend>>
\* a pure transfer is never left awaiting
C16_TransfersNotParked == \A t \in st.awaiting : HasData[t]
TypeOK == st.awaiting \subseteq Trx /\ st.sealed \subseteq Trx
=============================================================================
