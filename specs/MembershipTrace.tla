--------------------------- MODULE MembershipTrace ---------------------------
(***************************************************************************)
(* Recorded runs of the discovery protocol - real gossipers behind real    *)
(* gRPC servers on loopback ports - judged step by step against            *)
(* Membership.tla.  The specification state is advanced by the action the  *)
(* event names; the peer tables recorded after the step must be the ones   *)
(* the specification arrives at.                                            *)
(***************************************************************************)
EXTENDS Membership, Json

CONSTANTS TraceFile
VARIABLES pos, obs
tvars == <<table, joined, todo, up, wire, nadv, pos, obs>>

TLog == ndJsonDeserialize(TraceFile)
ToSet(s) == {s[k] : k \in DOMAIN s}

\* observed tables: node -> (address name -> name of the node that listens on the recorded URL)
Seen(ev) ==
    [n \in Node |-> [a \in Addr |-> IF a \in DOMAIN ev.tables[n] THEN Url(ev.tables[n][a]) ELSE NoUrl]]
Clean(ev) == \A n \in Node : DOMAIN ev.tables[n] \subseteq Addr /\ \A a \in DOMAIN ev.tables[n] : ev.tables[n][a] \in Node

TInit == Init /\ pos = 1 /\ obs = TRUE

Fresh == /\ table' = [n \in Node |-> [a \in Addr |-> NoUrl]]
         /\ joined' = {Genesis} /\ up' = Node

EvReset(ev) == Fresh /\ obs' = (ToSet(ev.nodes) = Node /\ ev.genesis = Genesis)

EvJoin(ev) ==
    LET j == ev.n IN
    IF Genesis \in up
    THEN /\ table' = JoinResult(table, j, up)
         /\ joined' = joined \cup {j}
         /\ obs' = (ev.res = "ok" /\ Clean(ev) /\ Seen(ev) = table')
         /\ UNCHANGED up
    ELSE /\ obs' = (ev.res = "error" /\ Clean(ev) /\ Seen(ev) = table)
         /\ UNCHANGED <<table, joined, up>>

EvUpDown(ev) ==
    /\ up' = IF ev.a = "Down" THEN up \ {ev.n} ELSE up \cup {ev.n}
    /\ obs' = (ToSet(ev.up) = up' /\ Clean(ev) /\ Seen(ev) = table)
    /\ UNCHANGED <<table, joined>>

\* a request by the adversary or a replayed record: entered iff it is signed by the address it names
EvAdv(ev) ==
    LET r == CD(ev.addr, Url(ev.url), ev.by)
        takes == ev.n \in up /\ r.by = r.addr
    IN /\ table' = IF takes THEN [table EXCEPT ![ev.n][r.addr] = r.url] ELSE table
       /\ obs' = (ev.res = (IF takes THEN "ok" ELSE "error") /\ Clean(ev) /\ Seen(ev) = table')
       /\ UNCHANGED <<joined, up>>

TNext ==
    /\ pos <= Len(TLog)
    /\ pos' = pos + 1
    /\ UNCHANGED <<todo, wire, nadv>>
    /\ LET ev == TLog[pos] IN
       CASE ev.a = "Reset" -> EvReset(ev)
         [] ev.a = "Join" -> EvJoin(ev)
         [] ev.a \in {"Down", "Up"} -> EvUpDown(ev)
         [] ev.a = "Adv" -> EvAdv(ev)

TSpec == TInit /\ [][TNext]_tvars

Conforms == obs
\* the invariants of the protocol on the states the real system went through
T_OnlySelfSignedUrls == M1_OnlySelfSignedUrls
Accepted == TLCGet("stats").diameter = Len(TLog) + 1
=============================================================================
