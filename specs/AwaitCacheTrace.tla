--------------------------- MODULE AwaitCacheTrace ---------------------------
(***************************************************************************)
(* Recorded calls on a real cache.Hippocampus judged against AwaitCache.tla *)
(*  - Call events (sequential use): the reply and the post-state must be    *)
(*    what the operation gives when its steps run without interleaving      *)
(*    (the meaning of the repaired code, Guard = "mutex");                  *)
(*  - Quiesce events (after gate-controlled or free-running concurrent      *)
(*    calls have all returned): the recorded state must satisfy the         *)
(*    quiescence invariant C17_ListsExact, and the entries must be exactly  *)
(*    the saved-and-not-removed ones the driver expects.                    *)
(***************************************************************************)
EXTENDS AwaitCache, Json

CONSTANT TraceFile
VARIABLES pos, obs
tvars == <<entry, list, run, mu, nops, last, pos, obs>>

TLog == ndJsonDeserialize(TraceFile)
Cfg0 == TLog[1]
THash == ToSet(Cfg0.hashes)
TAddr == ToSet(Cfg0.addrs)
TIss == [h \in THash |-> Cfg0.iss[h]]
TRcv == [h \in THash |-> Cfg0.rcv[h]]

\* ---- the operations as single steps ----
RECURSIVE AddTo(_, _, _)
AddTo(l, as, h) ==
    IF as = <<>> THEN l
    ELSE LET a == Head(as) IN
         AddTo([l EXCEPT ![a] = IF l[a] = Absent THEN <<h>> ELSE Append(l[a], h)], Tail(as), h)

\* An empty list has two raw encodings (no bytes at all, or only separators left behind by remove());
\* the code deletes the key in the first case and treats the list as present in the second.  The model
\* does not track raw bytes: where the code looks at the raw length both continuations are allowed.
RECURSIVE DropFrom(_, _, _)
DropFrom(l, as, h) ==   \* set of possible lists
    IF as = <<>> THEN {l}
    ELSE LET a == Head(as) IN
         UNION {DropFrom(l2, Tail(as), h) :
                l2 \in IF l[a] = Absent THEN {l}
                       ELSE IF l[a] = <<>> THEN {[l EXCEPT ![a] = Absent], l}
                       ELSE {[l EXCEPT ![a] = Without(l[a], h)]}}

SaveA(e, l, h) ==
    IF h \in e THEN {[res |-> "exists", e |-> e, l |-> l, out |-> <<>>]}
    ELSE {[res |-> "ok", e |-> e \cup {h}, l |-> AddTo(l, Parties(h), h), out |-> <<>>]}

RemoveA(e, l, h, a) ==
    IF h \notin e THEN {[res |-> "notfound", e |-> e, l |-> l, out |-> <<>>]}
    ELSE IF Rcv[h] # a THEN {[res |-> "unauthorized", e |-> e, l |-> l, out |-> <<>>]}
    ELSE {[res |-> "ok", e |-> e \ {h}, l |-> l2, out |-> <<>>] : l2 \in DropFrom(l, <<Iss[h], Rcv[h]>>, h)}

RECURSIVE Prune(_, _)
Prune(s, stale) == IF stale = <<>> \/ s = <<>> THEN s ELSE Prune(Without(s, Head(stale)), Tail(stale))

ReadA(e, l, a) ==
    IF l[a] = Absent THEN {[res |-> "notfound", e |-> e, l |-> l, out |-> <<>>]}
    ELSE (IF l[a] = <<>> THEN {[res |-> "notfound", e |-> e, l |-> [l EXCEPT ![a] = Absent], out |-> <<>>]} ELSE {})
         \cup
         {LET got == SelectSeq(l[a], LAMBDA h : h \in e)
              stale == SelectSeq(l[a], LAMBDA h : h \notin e)
          IN [res |-> "ok", e |-> e, l |-> [l EXCEPT ![a] = Prune(l[a], stale)], out |-> got]}

\* ---- reading the log ----
LList(x) == x   \* an absent key is logged as <<"absent">>, which is Absent
LState(ev) == [e |-> ToSet(ev.entry), l |-> [a \in Addr |-> LList(ev.lists[a])]]

TInit ==
    /\ entry = {} /\ list = [a \in Addr |-> Absent]
    /\ run = [c \in Slots |-> Idle] /\ mu = 0 /\ nops = 0 /\ last = NoRes
    /\ pos = 1 /\ obs = [conf |-> TRUE, expect |-> TRUE]

TNext ==
    /\ pos <= Len(TLog)
    /\ pos' = pos + 1
    /\ UNCHANGED <<run, mu, nops, last>>
    /\ LET ev == TLog[pos] IN
       CASE ev.a = "Reset" ->
              /\ entry' = {} /\ list' = [a \in Addr |-> Absent]
              /\ obs' = [conf |-> ToSet(ev.hashes) = Hash /\ ToSet(ev.addrs) = Addr, expect |-> TRUE]
         [] ev.a = "Call" ->
              LET os == CASE ev.op = "save" -> SaveA(entry, list, ev.h)
                          [] ev.op = "remove" -> RemoveA(entry, list, ev.h, ev.addr)
                          [] ev.op = "read" -> ReadA(entry, list, ev.addr)
                  s == LState(ev)
              IN /\ entry' = s.e /\ list' = s.l
                 /\ obs' = [conf |-> \E o \in os : o.res = ev.res /\ o.e = s.e /\ o.l = s.l /\ (o.res = "ok" => o.out = ev.out),
                            expect |-> TRUE]
         [] ev.a = "Quiesce" ->
              LET s == LState(ev) IN
              /\ entry' = s.e /\ list' = s.l
              /\ obs' = [conf |-> TRUE, expect |-> s.e = ToSet(ev.expect)]
TSpec == TInit /\ [][TNext]_tvars

\* sequential calls reply and act as specified
C17_CallsConform == obs.conf
\* after concurrent calls: exactly the saved and not removed transactions have an entry
C17_EntriesAsExpected == obs.expect
Accepted == TLCGet("stats").diameter = Len(TLog) + 1
=============================================================================
