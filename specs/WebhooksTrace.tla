--------------------------- MODULE WebhooksTrace ---------------------------
(***************************************************************************)
(* Recorded runs of the REAL webhook service (webhooks.Service behind the  *)
(* webhooksserver handler, HTTP endpoints on loopback ports) judged step   *)
(* by step against Webhooks.tla.  The specification state is advanced by   *)
(* the action the event names; what the run observed - the reply, which    *)
(* endpoint was hit how often, and where a probe notification for each     *)
(* single address arrives after the step - must be what the specification  *)
(* arrives at.                                                              *)
(***************************************************************************)
EXTENDS Webhooks, Json, Sequences

CONSTANTS TraceFile
VARIABLES pos, obs
tvars == <<hook, up, inbox, auth, last, pos, obs>>

TLog == ndJsonDeserialize(TraceFile)
ToSet(s) == {s[k] : k \in DOMAIN s}

\* where a notification about w alone arrives
Visible(h, live) == [w \in Wallet |-> IF h[w] # NoUrl /\ h[w] \in live THEN h[w] ELSE NoUrl]
Seen(ev) == [w \in Wallet |-> ev.seen[w]]
Clean(ev) == DOMAIN ev.seen = Wallet /\ \A w \in Wallet : ev.seen[w] \in Url \cup {NoUrl}

TInit == Init /\ pos = 1 /\ obs = TRUE

EvReset(ev) ==
    /\ hook' = [w \in Wallet |-> NoUrl] /\ up' = Url /\ inbox' = [u \in Url |-> 0] /\ auth' = {} /\ last' = "env"
    /\ obs' = (ToSet(ev.wallets) = Wallet /\ ToSet(ev.urls) = Url)

EvSub(ev) ==
    /\ Subscribe(ev.w, ev.u, ev.by, ev.shape)
    /\ obs' = (/\ ev.res = (IF last' = "ok" THEN "ok" ELSE "error")
               /\ Clean(ev) /\ Seen(ev) = Visible(hook', up'))

\* the very bytes of an earlier accepted request, sent again
EvReplay(ev) ==
    IF <<ev.w, ev.u>> \in auth
    THEN /\ Replay(ev.w, ev.u)
         /\ obs' = (ev.res = "ok" /\ Clean(ev) /\ Seen(ev) = Visible(hook', up'))
    ELSE UNCHANGED <<hook, up, inbox, auth, last>> /\ obs' = FALSE

EvRemove(ev) ==
    /\ Remove(ev.w)
    /\ obs' = (Clean(ev) /\ Seen(ev) = Visible(hook', up'))

EvNotify(ev) ==
    /\ Notify(ToSet(ev.ws))
    /\ obs' = (/\ \A u \in Url : ev.hits[u] = Hits(ToSet(ev.ws), hook, up)[u]
               /\ ev.wellformed
               /\ Clean(ev) /\ Seen(ev) = Visible(hook', up'))

EvUpDown(ev) ==
    /\ IF ev.a = "Down" THEN up' = up \ {ev.u} ELSE up' = up \cup {ev.u}
    /\ last' = "env"
    /\ UNCHANGED <<hook, inbox, auth>>
    /\ obs' = (Clean(ev) /\ Seen(ev) = Visible(hook', up'))

TNext ==
    /\ pos <= Len(TLog)
    /\ pos' = pos + 1
    /\ LET ev == TLog[pos] IN
       CASE ev.a = "Reset" -> EvReset(ev)
         [] ev.a = "Sub" -> EvSub(ev)
         [] ev.a = "Remove" -> EvRemove(ev)
         [] ev.a = "Replay" -> EvReplay(ev)
         [] ev.a = "Notify" -> EvNotify(ev)
         [] ev.a \in {"Down", "Up"} -> EvUpDown(ev)

TSpec == TInit /\ [][TNext]_tvars

Conforms == obs
T_OwnerDecides == W1_OwnerDecides
TView == <<hook, up, auth, last, pos, obs>>
Accepted == TLCGet("stats").diameter = Len(TLog) + 1
=============================================================================
