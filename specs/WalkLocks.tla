------------------------------ MODULE WalkLocks ------------------------------
(***************************************************************************)
(* Locks, graph walkers and channels of the accounting book (C08).          *)
(*                                                                          *)
(* What is modelled is what the Go runtime objects do:                      *)
(*  - ab.mux and the graph library's muDAG as Go sync.RWMutex: a Lock that  *)
(*    is waiting excludes new RLocks (this is what turns a read lock taken  *)
(*    behind a queued writer into a deadlock);                               *)
(*  - dag.AncestorsWalker: a producer goroutine that takes muDAG.RLock, and *)
(*    for each ancestor polls the (buffered, capacity 1) stop signal and    *)
(*    then does a blocking send on the unbuffered id channel; it releases   *)
(*    the lock and closes both channels only when it falls out of the walk; *)
(*  - the consumer loops of validateLeaf / CalculateBalance /               *)
(*    ReadDAGTransactionsByAddress / performOnAncestorWalker with their     *)
(*    exits (after k received ids: context cancelled, callback error,       *)
(*    truncation cut found; or the normal end), each received id followed   *)
(*    by dag.GetVertex (a read lock of its own);                            *)
(*  - truncate: three consecutive walks under ab.mux.Lock (the first one    *)
(*    ends early at the cut) followed by DeleteVertex (muDAG.Lock);         *)
(*  - writers (CreateLeaf / AddLeaf): graph writes under ab.mux.Lock;       *)
(*  - StreamDAG: a goroutine that outlives the caller's ab.mux.RLock.       *)
(*                                                                          *)
(* Proto selects the early-exit protocol of the consumers:                  *)
(*   "signal"  send on the stop channel and return (pinned code, F1)        *)
(*   "drain"   drain the id channel before returning (repaired code)        *)
(* StreamProto selects StreamDAG:                                           *)
(*   "walk"      goroutine walks the graph after the lock is gone (F2)      *)
(*   "snapshot"  vertices collected under the lock, streamed from the copy  *)
(* Writers push the new weight on the truncate signal channel (capacity     *)
(* SignalBuf) while they hold ab.mux; the runTruncate loop drains it - as   *)
(* long as it lives (LoopProto).                                            *)
(*                                                                          *)
(* Each process executes a straight-line program of micro steps (one per    *)
(* lock operation / channel operation); Program(p) builds it from the       *)
(* operation's kind.                                                        *)
(***************************************************************************)
EXTENDS Integers, Sequences, FiniteSets, TLC

CONSTANTS
    NAnc,          \* ancestors visited by every walk
    Ops,           \* function: operation id -> [kind, k]   kind \in {"read","write","truncate","stream"}
                   \*   k: for "read": the number of ids received before the early exit (NAnc + 1 = no early exit)
                   \*      for "truncate": position of the cut found by the first walk
    StreamBuf,     \* capacity of the stream channel
    SignalBuf,     \* capacity of the truncate signal channel (50 in the code)
    Proto, StreamProto,
    LoopProto,     \* "dies": runTruncate leaves its loop when a truncation fails (pinned code, finding F16);
                   \* "survives": it logs the failure and keeps reading the channel (repaired code)
    TruncMayFail,  \* whether a truncation started by the loop can fail
    SendProto      \* "block": the weight is sent with a blocking channel send while ab.mux is held (pinned code, finding F17);
                   \* "drop": non-blocking send, a weight that does not fit is dropped (repaired code)

OpIds == DOMAIN Ops

\* process identities: <<op, "op">> the operation itself, its walkers <<op, "w1">>.., the stream goroutine <<op, "g">>,
\* the walker of the stream goroutine <<op, "gw">> and the external consumer of a stream <<op, "c">>
Main == OpIds \X {"op"}
Walkers == OpIds \X {"w1", "w2", "w3", "gw"}
Streamers == OpIds \X {"g"}
Readers == OpIds \X {"c"}
Procs == OpIds \X {"op", "w1", "w2", "w3", "gw", "g", "c"}

VARIABLES
    pc,        \* program counter of every process (0 = not started, > Len(program) = finished)
    abR, abW, abWait,     \* ab.mux: readers, writer, waiting writers
    dgR, dgW, dgWait,     \* muDAG: readers (process -> count), writer, waiting writers
    sig,       \* walker -> number of elements in its stop signal channel (capacity 1)
    closed,    \* walkers whose channels are closed
    chan,      \* operation -> number of elements in its stream channel
    chanClosed,\* operations whose stream channel is closed
    panic,     \* a send on a closed channel happened
    sigq,      \* number of weights waiting in the truncate signal channel
    loopAlive, \* the runTruncate goroutine is still in its loop
    loopPc     \* "idle": waiting on the channel; "want": took a triggering weight, about to take ab.mux; "wait": announced;
               \* "hold": truncating under ab.mux

vars == <<pc, abR, abW, abWait, dgR, dgW, dgWait, sig, closed, chan, chanClosed, panic, sigq, loopAlive, loopPc>>

None == <<0, "none">>

I(name) == [i |-> name, w |-> None]
IW(name, w) == [i |-> name, w |-> w]

\* GetVertex and friends: a short read lock of the graph
GetV == <<I("dgRLock"), I("dgRUnlock")>>

RECURSIVE Rep(_, _)
Rep(s, n) == IF n = 0 THEN <<>> ELSE s \o Rep(s, n - 1)

\* consumer side of one walk over walker w, leaving after k received ids (k = NAnc + 1: full walk)
Walk(w, k) ==
    <<IW("spawn", w)>> \o
    (IF k > NAnc
     THEN Rep(<<IW("recv", w)>> \o GetV, NAnc) \o <<IW("recvEnd", w)>>
     ELSE Rep(<<IW("recv", w)>> \o GetV, k) \o
          (IF Proto = "signal" THEN <<IW("sig", w)>> ELSE <<IW("drain", w)>>))

WalkerProgram(w) ==
    <<I("dgRLock")>> \o Rep(<<IW("send", w)>>, NAnc) \o <<I("dgRUnlock"), IW("closeW", w)>>

Program(p) ==
    IF p \in Main THEN
        LET o == Ops[p[1]] q == p[1] IN
        CASE o.kind = "read" ->
               <<I("abRLock")>> \o Walk(<<q, "w1">>, o.k) \o <<I("abRUnlock")>>
          [] o.kind = "write" ->
               \* CreateLeaf / AddLeaf: graph write, then the weight is pushed on the signal channel under the book lock
               <<I("abLockAnn"), I("abLockAcq"), I("dgLockAnn"), I("dgLockAcq"), I("dgUnlock"), I("sigPush"), I("abUnlock")>>
          [] o.kind = "truncate" ->
               <<I("abLockAnn"), I("abLockAcq")>> \o GetV \o Walk(<<q, "w1">>, o.k) \o Walk(<<q, "w2">>, NAnc + 1)
               \o Walk(<<q, "w3">>, NAnc + 1) \o <<I("dgLockAnn"), I("dgLockAcq"), I("dgUnlock"), I("abUnlock")>>
          [] o.kind = "stream" ->
               IF StreamProto = "walk"
               THEN <<I("abRLock"), IW("go", <<q, "g">>), I("abRUnlock"), IW("go", <<q, "c">>)>>
               ELSE <<I("abRLock")>> \o GetV \o <<I("abRUnlock"), IW("go", <<q, "g">>), IW("go", <<q, "c">>)>>
    ELSE IF p \in Walkers THEN WalkerProgram(p)
    ELSE IF p \in Streamers THEN
        LET op == p[1] IN
        IF StreamProto = "walk"
        THEN GetV \o GetV \o <<IW("push", <<op, "ch">>)>> \o <<IW("spawn", <<op, "gw">>)>> \o
             Rep(<<IW("recv", <<op, "gw">>)>> \o GetV \o <<IW("push", <<op, "ch">>)>>, NAnc) \o
             <<IW("recvEnd", <<op, "gw">>), IW("closeChan", <<op, "ch">>)>>
        ELSE Rep(<<IW("push", <<op, "ch">>)>>, NAnc + 1) \o <<IW("closeChan", <<op, "ch">>)>>
    ELSE \* external reader of the stream: pops NAnc + 1 vertices, then sees the channel closed
        Rep(<<IW("pop", <<p[1], "ch">>)>>, NAnc + 1) \o <<IW("popEnd", <<p[1], "ch">>)>>

Prog == [p \in Procs |-> Program(p)]

Cur(p) == Prog[p][pc[p]]
Running(p) == pc[p] >= 1 /\ pc[p] <= Len(Prog[p])
Finished(p) == pc[p] > Len(Prog[p])
At(p, name) == Running(p) /\ Cur(p).i = name

Init ==
    /\ pc = [p \in Procs |-> IF p \in Main THEN 1 ELSE 0]
    /\ abR = {} /\ abW = None /\ abWait = {}
    /\ dgR = [p \in Procs |-> 0] /\ dgW = None /\ dgWait = {}
    /\ sig = [w \in Walkers |-> 0]
    /\ closed = {}
    /\ chan = [o \in OpIds |-> 0]
    /\ chanClosed = {}
    /\ panic = FALSE
    /\ sigq = 0 /\ loopAlive = TRUE /\ loopPc = "idle"

Adv(p) == pc' = [pc EXCEPT ![p] = @ + 1]
DgReaders == {p \in Procs : dgR[p] > 0}

\* ---- steps of a single process ----

Step(p) ==
    /\ Running(p)
    /\ LET c == Cur(p) IN
       CASE c.i = "abRLock" ->
              /\ abW = None /\ abWait = {}
              /\ abR' = abR \cup {p} /\ Adv(p)
              /\ UNCHANGED <<abW, abWait, dgR, dgW, dgWait, sig, closed, chan, chanClosed, panic, sigq, loopAlive, loopPc>>
         [] c.i = "abRUnlock" ->
              /\ abR' = abR \ {p} /\ Adv(p)
              /\ UNCHANGED <<abW, abWait, dgR, dgW, dgWait, sig, closed, chan, chanClosed, panic, sigq, loopAlive, loopPc>>
         [] c.i = "abLockAnn" ->
              /\ abWait' = abWait \cup {p} /\ Adv(p)
              /\ UNCHANGED <<abR, abW, dgR, dgW, dgWait, sig, closed, chan, chanClosed, panic, sigq, loopAlive, loopPc>>
         [] c.i = "abLockAcq" ->
              /\ abW = None /\ abR = {}
              /\ abW' = p /\ abWait' = abWait \ {p} /\ Adv(p)
              /\ UNCHANGED <<abR, dgR, dgW, dgWait, sig, closed, chan, chanClosed, panic, sigq, loopAlive, loopPc>>
         [] c.i = "abUnlock" ->
              /\ abW' = None /\ Adv(p)
              /\ UNCHANGED <<abR, abWait, dgR, dgW, dgWait, sig, closed, chan, chanClosed, panic, sigq, loopAlive, loopPc>>
         [] c.i = "dgRLock" ->
              /\ dgW = None /\ dgWait = {}
              /\ dgR' = [dgR EXCEPT ![p] = @ + 1] /\ Adv(p)
              /\ UNCHANGED <<abR, abW, abWait, dgW, dgWait, sig, closed, chan, chanClosed, panic, sigq, loopAlive, loopPc>>
         [] c.i = "dgRUnlock" ->
              /\ dgR' = [dgR EXCEPT ![p] = @ - 1] /\ Adv(p)
              /\ UNCHANGED <<abR, abW, abWait, dgW, dgWait, sig, closed, chan, chanClosed, panic, sigq, loopAlive, loopPc>>
         [] c.i = "dgLockAnn" ->
              /\ dgWait' = dgWait \cup {p} /\ Adv(p)
              /\ UNCHANGED <<abR, abW, abWait, dgR, dgW, sig, closed, chan, chanClosed, panic, sigq, loopAlive, loopPc>>
         [] c.i = "dgLockAcq" ->
              /\ dgW = None /\ DgReaders = {}
              /\ dgW' = p /\ dgWait' = dgWait \ {p} /\ Adv(p)
              /\ UNCHANGED <<abR, abW, abWait, dgR, sig, closed, chan, chanClosed, panic, sigq, loopAlive, loopPc>>
         [] c.i = "dgUnlock" ->
              /\ dgW' = None /\ Adv(p)
              /\ UNCHANGED <<abR, abW, abWait, dgR, dgWait, sig, closed, chan, chanClosed, panic, sigq, loopAlive, loopPc>>
         [] c.i = "sigPush" ->   \* the new weight goes to the truncation loop while ab.mux is held
              /\ IF SendProto = "block"
                 THEN sigq < SignalBuf /\ sigq' = sigq + 1            \* blocks while the channel is full
                 ELSE sigq' = IF sigq < SignalBuf THEN sigq + 1 ELSE sigq   \* select-default: dropped when full
              /\ Adv(p)
              /\ UNCHANGED <<abR, abW, abWait, dgR, dgW, dgWait, sig, closed, chan, chanClosed, panic, loopAlive, loopPc>>
         [] c.i = "spawn" ->   \* AncestorsWalker: a momentary read lock, then the producer goroutine starts
              /\ dgW = None /\ dgWait = {}
              /\ pc' = [pc EXCEPT ![p] = @ + 1, ![c.w] = 1]
              /\ UNCHANGED <<abR, abW, abWait, dgR, dgW, dgWait, sig, closed, chan, chanClosed, panic, sigq, loopAlive, loopPc>>
         [] c.i = "go" ->
              /\ pc' = [pc EXCEPT ![p] = @ + 1, ![c.w] = 1]
              /\ UNCHANGED <<abR, abW, abWait, dgR, dgW, dgWait, sig, closed, chan, chanClosed, panic, sigq, loopAlive, loopPc>>
         [] c.i = "send" ->    \* producer: poll the stop signal; the blocking send itself is the joint step Handoff
              /\ sig[p] > 0
              /\ sig' = [sig EXCEPT ![p] = 0]
              /\ pc' = [pc EXCEPT ![p] = NAnc + 2]      \* fall out of the walk: to dgRUnlock
              /\ UNCHANGED <<abR, abW, abWait, dgR, dgW, dgWait, closed, chan, chanClosed, panic, sigq, loopAlive, loopPc>>
         [] c.i = "closeW" ->
              /\ closed' = closed \cup {p} /\ Adv(p)
              /\ UNCHANGED <<abR, abW, abWait, dgR, dgW, dgWait, sig, chan, chanClosed, panic, sigq, loopAlive, loopPc>>
         [] c.i = "recvEnd" ->  \* the range loop ends when the channel is closed
              /\ c.w \in closed /\ Adv(p)
              /\ UNCHANGED <<abR, abW, abWait, dgR, dgW, dgWait, sig, closed, chan, chanClosed, panic, sigq, loopAlive, loopPc>>
         [] c.i = "recv" ->     \* only the closed case here (walk shorter than expected cannot happen: NAnc fixed)
              /\ FALSE
              /\ UNCHANGED vars
         [] c.i = "sig" ->      \* signal <- true : buffered, capacity 1; panics on a closed channel
              /\ IF c.w \in closed
                 THEN panic' = TRUE /\ UNCHANGED sig
                 ELSE sig[c.w] = 0 /\ sig' = [sig EXCEPT ![c.w] = 1] /\ UNCHANGED panic
              /\ Adv(p)
              /\ UNCHANGED <<abR, abW, abWait, dgR, dgW, dgWait, closed, chan, chanClosed, sigq, loopAlive, loopPc>>
         [] c.i = "drain" ->    \* for range ids {} : ends when the channel is closed (receiving is Handoff)
              /\ c.w \in closed /\ Adv(p)
              /\ UNCHANGED <<abR, abW, abWait, dgR, dgW, dgWait, sig, closed, chan, chanClosed, panic, sigq, loopAlive, loopPc>>
         [] c.i = "push" ->
              /\ chan[c.w[1]] < StreamBuf
              /\ chan' = [chan EXCEPT ![c.w[1]] = @ + 1] /\ Adv(p)
              /\ UNCHANGED <<abR, abW, abWait, dgR, dgW, dgWait, sig, closed, chanClosed, panic, sigq, loopAlive, loopPc>>
         [] c.i = "closeChan" ->
              /\ chanClosed' = chanClosed \cup {c.w[1]} /\ Adv(p)
              /\ UNCHANGED <<abR, abW, abWait, dgR, dgW, dgWait, sig, closed, chan, panic, sigq, loopAlive, loopPc>>
         [] c.i = "pop" ->
              /\ chan[c.w[1]] > 0
              /\ chan' = [chan EXCEPT ![c.w[1]] = @ - 1] /\ Adv(p)
              /\ UNCHANGED <<abR, abW, abWait, dgR, dgW, dgWait, sig, closed, chanClosed, panic, sigq, loopAlive, loopPc>>
         [] c.i = "popEnd" ->
              /\ chan[c.w[1]] = 0 /\ c.w[1] \in chanClosed /\ Adv(p)
              /\ UNCHANGED <<abR, abW, abWait, dgR, dgW, dgWait, sig, closed, chan, chanClosed, panic, sigq, loopAlive, loopPc>>

\* the unbuffered id channel: producer at "send" with no stop signal pending, consumer at "recv" or "drain"
Handoff(w, p) ==
    /\ At(w, "send") /\ sig[w] = 0
    /\ Running(p) /\ Cur(p).w = w /\ Cur(p).i \in {"recv", "drain"}
    /\ pc' = [pc EXCEPT ![w] = @ + 1, ![p] = IF Cur(p).i = "recv" THEN @ + 1 ELSE @]
    /\ UNCHANGED <<abR, abW, abWait, dgR, dgW, dgWait, sig, closed, chan, chanClosed, panic, sigq, loopAlive, loopPc>>

\* the producer's select: when a signal is pending and a receiver is ready either branch may be taken;
\* Step(w) covers the signal branch; with sig > 0 the default branch is not taken by Go's select only
\* if the signal case is ready, which it is - so no further action here.

\* runTruncate: take a weight from the channel; most weights do not trigger anything; for a triggering one the
\* loop logs, takes ab.mux, truncates (which may fail) and goes back to the channel - or ends (LoopProto)
LoopFrame == <<pc, abR, dgR, dgW, dgWait, sig, closed, chan, chanClosed, panic>>
LoopTake ==
    /\ loopAlive /\ loopPc = "idle" /\ sigq > 0
    /\ sigq' = sigq - 1
    /\ loopPc' \in {"idle", "want"}
    /\ UNCHANGED <<LoopFrame, abW, abWait, loopAlive>>
LoopAnnounce ==
    /\ loopPc = "want"
    /\ abWait' = abWait \cup {<<0, "loop">>} /\ loopPc' = "wait"
    /\ UNCHANGED <<LoopFrame, abW, sigq, loopAlive>>
LoopAcquire ==
    /\ loopPc = "wait" /\ abW = None /\ abR = {}
    /\ abW' = <<0, "loop">> /\ abWait' = abWait \ {<<0, "loop">>} /\ loopPc' = "hold"
    /\ UNCHANGED <<LoopFrame, sigq, loopAlive>>
LoopRelease ==
    /\ loopPc = "hold"
    /\ abW' = None /\ loopPc' = "idle"
    /\ \/ loopAlive' = TRUE
       \/ TruncMayFail /\ loopAlive' = (LoopProto = "survives")
    /\ UNCHANGED <<LoopFrame, abWait, sigq>>
LoopStep == LoopTake \/ LoopAnnounce \/ LoopAcquire \/ LoopRelease

AllDone == \A p \in Procs : pc[p] = 0 \/ Finished(p)

Next ==
    \/ \E p \in Procs : Step(p)
    \/ \E w \in Walkers, p \in Procs : Handoff(w, p)
    \/ LoopStep
    \/ AllDone /\ UNCHANGED vars

Fairness ==
    /\ \A p \in Procs : WF_vars(Step(p))
    /\ \A w \in Walkers : \A p \in Procs : WF_vars(Handoff(w, p))
    /\ WF_vars(LoopStep)

Spec == Init /\ [][Next]_vars /\ Fairness

----------------------------------------------------------------------------
(* Properties (C08) *)

\* every operation returns, and everything it started has ended
EveryOpReturns == <>AllDone

\* when everything has returned no lock is held and no walker is alive
NoLeak ==
    ((\A p \in Procs : ~Running(p)) /\ loopPc = "idle")
        => /\ abR = {} /\ abW = None /\ dgW = None /\ DgReaders = {}

\* an operation that has returned leaves no walker of its own holding the graph lock
NoAbandonedWalker ==
    \A o \in OpIds : Finished(<<o, "op">>) /\ Ops[o].kind # "stream" =>
        \A i \in {"w1", "w2", "w3"} : ~Running(<<o, i>>)

NoSendOnClosed == ~panic

TypeOK ==
    /\ \A p \in Procs : dgR[p] >= 0
    /\ \A o \in OpIds : chan[o] <= StreamBuf
=============================================================================
