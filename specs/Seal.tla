-------------------------------- MODULE Seal --------------------------------
(***************************************************************************)
(* What the signatures of a vertex cover (C04): a symbolic model of         *)
(* transaction.GetMessage / Transaction.Verify*, Vertex.initData /          *)
(* Vertex.verify and wallet.Helper.Verify.                                  *)
(*                                                                          *)
(* Keys are names; Sig(k, d) is an uninterpreted constructor and hashing is *)
(* injective (H(x) is x itself) - cryptographic strength is assumed.  What  *)
(* is modelled is WHICH bytes go into which digest:                         *)
(*   transaction message = subject . data . issuer . receiver . time . cur  *)
(*                         . sup   - a bare CONCATENATION: subject and data *)
(*                         have no length prefix, the rest is fixed width   *)
(*   vertex digest       = trxHash . left . right . time . weight           *)
(*   the receiver signature is checked only when it is present, and no      *)
(*   digest covers it.                                                      *)
(* An address is [key, sum]; it resolves to its key only if sum is the      *)
(* checksum of the key (self-checking).                                     *)
(*                                                                          *)
(* State: one honestly produced vertex `orig` (any shape of the bounded     *)
(* universe) and a tampered copy `cur`.  The invariant says that a copy     *)
(* that differs from the original in a signed field does not verify.        *)
(***************************************************************************)
EXTENDS Integers, Sequences, FiniteSets, TLC

CONSTANTS Letters,     \* alphabet of the variable-length fields
          Keys         \* wallet keys (names)

Strs(lo, hi) == UNION {[1..n -> Letters] : n \in lo..hi}
Addr(k) == [key |-> k, sum |-> k]                  \* checksum of a key is modelled as the key name again
WellFormed(a) == a.sum = a.key
Sig(k, d) == [by |-> k, over |-> d]
NoSig == [by |-> "none", over |-> <<>>]

\* the bytes that are signed
TrxMessage(t) == t.subject \o t.data \o <<t.issuer, t.receiver, t.time, t.cur, t.sup>>
VtxDigestInput(v) == <<v.trx.hash, v.left, v.right, v.time, v.weight>>

VerifyBy(addr, digestIn, hash, sig) ==      \* wallet.Helper.Verify
    /\ hash = digestIn                       \* sha256(message) = carried hash (hashing is injective here)
    /\ WellFormed(addr)
    /\ sig = Sig(addr.key, hash)

VerifyTrx(t) ==
    /\ VerifyBy(t.issuer, TrxMessage(t), t.hash, t.isig)
    /\ t.rsig # NoSig => VerifyBy(t.receiver, TrxMessage(t), t.hash, t.rsig)

VerifyVertex(v) ==
    /\ VerifyTrx(v.trx)
    /\ VerifyBy(v.sealer, VtxDigestInput(v), v.hash, v.sig)

\* honest construction
MakeTrx(subject, data, i, r, time, cur, sup, countersigned) ==
    LET t0 == [subject |-> subject, data |-> data, issuer |-> Addr(i), receiver |-> Addr(r), time |-> time, cur |-> cur,
               sup |-> sup, hash |-> <<>>, isig |-> NoSig, rsig |-> NoSig]
        h == TrxMessage(t0)
    IN [t0 EXCEPT !.hash = h, !.isig = Sig(i, h), !.rsig = IF countersigned THEN Sig(r, h) ELSE NoSig]

MakeVertex(t, s, left, right, time, weight) ==
    LET v0 == [trx |-> t, sealer |-> Addr(s), left |-> left, right |-> right, time |-> time, weight |-> weight,
               hash |-> <<>>, sig |-> NoSig]
        h == VtxDigestInput(v0)
    IN [v0 EXCEPT !.hash = h, !.sig = Sig(s, h)]

VARIABLES orig, cur, what

\* every honest vertex of the bounded universe
Init ==
    /\ \E subject \in Strs(1, 2), data \in Strs(0, 2), cs \in BOOLEAN, cu \in {0, 1} :
          orig = MakeVertex(MakeTrx(subject, data, "I", "R", 1, cu, 0, cs), "S", "p1", "p2", 1, 1)
    /\ cur = orig
    /\ what = "none"

Set(v, kind) == cur' = v /\ what' = kind /\ UNCHANGED orig

\* ---- the mutations of the C04 quantifier, each applied to the untampered copy ----
OtherLetter(x) == CHOOSE y \in Letters : y # x
MutationsOf(v) ==
    LET t == v.trx IN
    {   \* change one symbol of a variable-length field
        <<"subject.flip", [v EXCEPT !.trx.subject = [t.subject EXCEPT ![1] = OtherLetter(t.subject[1])]]>>,
        <<"data.flip", IF t.data = <<>> THEN v ELSE [v EXCEPT !.trx.data = [t.data EXCEPT ![1] = OtherLetter(t.data[1])]]>>,
        \* truncate / extend
        <<"subject.extend", [v EXCEPT !.trx.subject = Append(@, CHOOSE l \in Letters : TRUE)]>>,
        <<"data.extend", [v EXCEPT !.trx.data = Append(@, CHOOSE l \in Letters : TRUE)]>>,
        <<"data.truncate", IF t.data = <<>> THEN v ELSE [v EXCEPT !.trx.data = SubSeq(@, 1, Len(@) - 1)]>>,
        \* move a byte across the boundary between two adjacent variable-length fields
        <<"boundary.subject>data", IF Len(t.subject) < 2 THEN v
                                   ELSE [v EXCEPT !.trx.subject = SubSeq(t.subject, 1, Len(t.subject) - 1),
                                                  !.trx.data = <<t.subject[Len(t.subject)]>> \o t.data]>>,
        <<"boundary.data>subject", IF t.data = <<>> THEN v
                                   ELSE [v EXCEPT !.trx.subject = Append(t.subject, t.data[1]), !.trx.data = Tail(t.data)]>>,
        \* fixed-width fields
        <<"time", [v EXCEPT !.trx.time = 2]>>, <<"cur", [v EXCEPT !.trx.cur = 1 - @]>>, <<"sup", [v EXCEPT !.trx.sup = 1]>>,
        <<"issuer.replace", [v EXCEPT !.trx.issuer = Addr("M")]>>,
        <<"issuer.corrupt", [v EXCEPT !.trx.issuer = [key |-> "M", sum |-> "I"]]>>,
        <<"receiver.replace", [v EXCEPT !.trx.receiver = Addr("M")]>>,
        <<"receiver.corrupt", [v EXCEPT !.trx.receiver = [key |-> "M", sum |-> "R"]]>>,
        <<"trxhash", [v EXCEPT !.trx.hash = <<"x">>]>>,
        <<"isig.corrupt", [v EXCEPT !.trx.isig = Sig("I", <<"x">>)]>>,
        <<"isig.replace", [v EXCEPT !.trx.isig = Sig("M", t.hash)]>>,
        <<"rsig.strip", [v EXCEPT !.trx.rsig = NoSig]>>,
        <<"rsig.replace", [v EXCEPT !.trx.rsig = Sig("M", t.hash)]>>,
        <<"left", [v EXCEPT !.left = "q"]>>, <<"right", [v EXCEPT !.right = "q"]>>, <<"swap.parents", [v EXCEPT !.left = v.right, !.right = v.left]>>,
        <<"vtime", [v EXCEPT !.time = 2]>>, <<"weight", [v EXCEPT !.weight = 2]>>,
        <<"vhash", [v EXCEPT !.hash = <<"x">>]>>,
        <<"sealer.replace", [v EXCEPT !.sealer = Addr("M")]>>,
        <<"sealer.corrupt", [v EXCEPT !.sealer = [key |-> "M", sum |-> "S"]]>>,
        <<"vsig.corrupt", [v EXCEPT !.sig = Sig("S", <<"x">>)]>>,
        <<"vsig.replace", [v EXCEPT !.sig = Sig("M", v.hash)]>>  }

Mutations == MutationsOf(orig)
Mutate == what = "none" /\ \E m \in Mutations : Set(m[2], m[1])
Next == Mutate
Spec == Init /\ [][Next]_<<orig, cur, what>>

----------------------------------------------------------------------------
HonestOK == what = "none" => VerifyVertex(cur)

\* C04: a copy that differs from the honest vertex does not verify
C04_TamperEvident == cur # orig => ~VerifyVertex(cur)

\* the two ways the strict claim fails in this design (known findings F11, F12)
IsF11 == what \in {"boundary.subject>data", "boundary.data>subject"}
IsF12 == what = "rsig.strip"
C04_TamperEvidentModuloKnown == (cur # orig /\ ~IsF11 /\ ~IsF12) => ~VerifyVertex(cur)
\* and those two really are what TLC reports when asked for the strict claim
=============================================================================
