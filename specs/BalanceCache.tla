---------------------------- MODULE BalanceCache ----------------------------
(***************************************************************************)
(* The balance cache and the read throttle in front of the notary's        *)
(* Balance RPC (src/notaryserver Balance / Propose / Confirm / Reject,      *)
(* cache.Hippocampus SaveBalance / ReadBalance / RemoveBalance,             *)
(* cache.Flashback HasAddress / RemoveAddress).                             *)
(*                                                                         *)
(* Balance(a): the throttle mark is tested and set first; then the request *)
(* is authenticated (data = address, signed by the address's key); then a  *)
(* cached value is served if there is one; otherwise the ledger is asked   *)
(* and the value is saved BY A GOROUTINE the handler starts.  A seal       *)
(* (Propose of a transfer, Confirm, Reject) replies first and then, BY A   *)
(* GOROUTINE, lifts the throttle marks and removes the cached balances of  *)
(* the issuer and - except for Reject - the receiver.                      *)
(*                                                                         *)
(* `cur[a]` stands for the ledger's answer for a (a version number here,   *)
(* the number the ledger returns in the trace specification).  Async =     *)
(* FALSE lets every goroutine land before the next request (what a client  *)
(* that waits sees; what the conformance driver arranges), Async = TRUE    *)
(* lets them land at any later time (what the code permits).               *)
(*                                                                         *)
(* Not one of the listed properties on its own (./check B01).  What it     *)
(* states, and TLC decides:                                                *)
(*   B1_Fresh  a served balance is the ledger's current answer             *)
(*     - holds for Async = FALSE, Kinds = {"propose", "confirm"};          *)
(*     - refuted for Kinds including "reject": the receiver's cached       *)
(*       balance survives a Reject (observation O-B1);                     *)
(*     - refuted for Async = TRUE: a save started before a seal lands      *)
(*       after that seal's invalidation and stays for the cache's life     *)
(*       (observation O-B2).                                               *)
(*   B2_ThrottleFirst  an unauthenticated request still marks the address  *)
(*       (anyone can lock an owner out of reading for the throttle window: *)
(*       what the code does, stated so that a change is noticed).          *)
(***************************************************************************)
EXTENDS Naturals, FiniteSets, TLC

CONSTANTS Addr, None, MaxVer, Async, Kinds

VARIABLES cur,      \* Addr -> Nat: the ledger's current answer
          bcache,   \* Addr -> Nat \cup {None}: the cached balances
          thr,      \* SUBSET Addr: throttle marks
          pend,     \* goroutines that have not landed yet
          reply     \* the last reply

vars == <<cur, bcache, thr, pend, reply>>

NoReply == [res |-> "none", a |-> "nobody", v |-> 0, c |-> 0]

Init == /\ cur = [a \in Addr |-> 0]
        /\ bcache = [a \in Addr |-> None]
        /\ thr = {}
        /\ pend = {}
        /\ reply = NoReply

\* effects of the goroutines
Saved(bc, a, v) == [bc EXCEPT ![a] = v]
Dropped(bc, as) == [a \in Addr |-> IF a \in as THEN None ELSE bc[a]]
Invalidates(i, r, kind) == IF kind = "reject" THEN {i} ELSE {i, r}

\* the Balance handler for address a, the ledger answering c; authentic = data is the address and its key signed
\* (async: the save goroutine of THIS request lands later)
BalanceStepA(a, c, authentic, async) ==
    IF a \in thr
    THEN /\ reply' = [res |-> "throttle", a |-> a, v |-> 0, c |-> c]
         /\ UNCHANGED <<bcache, thr, pend>>
    ELSE /\ thr' = thr \cup {a}
         /\ IF ~authentic
            THEN /\ reply' = [res |-> "verification", a |-> a, v |-> 0, c |-> c]
                 /\ UNCHANGED <<bcache, pend>>
            ELSE IF bcache[a] # None
                 THEN /\ reply' = [res |-> "ok", a |-> a, v |-> bcache[a], c |-> c]
                      /\ UNCHANGED <<bcache, pend>>
                 ELSE /\ reply' = [res |-> "ok", a |-> a, v |-> c, c |-> c]
                      /\ IF async
                         THEN pend' = pend \cup {[k |-> "save", a |-> a, v |-> c]} /\ UNCHANGED bcache
                         ELSE bcache' = Saved(bcache, a, c) /\ UNCHANGED pend

BalanceStep(a, c, authentic) == BalanceStepA(a, c, authentic, Async)

\* what a successful seal does to throttle and cache
SealStep(i, r, kind) ==
    LET inv == Invalidates(i, r, kind)
        lift == IF kind = "reject" THEN {i} ELSE {i, r} IN
    /\ reply' = [res |-> "sealed", a |-> i, v |-> 0, c |-> 0]
    /\ IF Async
       THEN pend' = pend \cup {[k |-> "inv", a |-> x, v |-> 0] : x \in inv} /\ UNCHANGED <<bcache, thr>>
       ELSE /\ bcache' = Dropped(bcache, inv)
            /\ thr' = thr \ lift
            /\ UNCHANGED pend

Balance(a, authentic) == BalanceStep(a, cur[a], authentic) /\ UNCHANGED cur

Seal(i, r, kind) ==
    /\ i # r /\ cur[i] < MaxVer /\ cur[r] < MaxVer
    /\ cur' = [cur EXCEPT ![i] = @ + 1, ![r] = @ + 1]
    /\ SealStep(i, r, kind)

Land(p) ==
    /\ p \in pend
    /\ pend' = pend \ {p}
    /\ IF p.k = "save"
       THEN bcache' = Saved(bcache, p.a, p.v) /\ UNCHANGED thr
       ELSE bcache' = Dropped(bcache, {p.a}) /\ thr' = thr \ {p.a}
    /\ UNCHANGED <<cur, reply>>

ThrottleExpire == thr # {} /\ thr' = {} /\ UNCHANGED <<cur, bcache, pend, reply>>
CacheExpire(a) == bcache[a] # None /\ bcache' = Dropped(bcache, {a}) /\ UNCHANGED <<cur, thr, pend, reply>>

Next ==
    \/ \E a \in Addr, au \in BOOLEAN : Balance(a, au)
    \/ \E i, r \in Addr, k \in Kinds : Seal(i, r, k)
    \/ \E p \in pend : Land(p)
    \/ ThrottleExpire
    \/ \E a \in Addr : CacheExpire(a)

Spec == Init /\ [][Next]_vars

TypeOK == /\ cur \in [Addr -> 0..MaxVer]
          /\ bcache \in [Addr -> 0..MaxVer \cup {None}]
          /\ thr \subseteq Addr
          /\ reply.res \in {"none", "ok", "throttle", "verification", "sealed"}

B1_Fresh == reply.res = "ok" => reply.v = reply.c
B2_ThrottleFirst == [][\A a \in Addr : (reply'.res = "verification" /\ reply'.a = a /\ reply' # reply) => a \in thr']_vars
\* a cached value was the ledger's answer at some time (never invented): it is at most the current version
B3_CachedWasTrue == \A a \in Addr : bcache[a] # None => bcache[a] <= cur[a]
=============================================================================
