----------------------------- MODULE GossipNetGen -----------------------------
(* Behaviour generation for the gossip driver: the actions of GossipNet with a history of what was done. *)
EXTENDS GossipNetMC, Json

VARIABLE hist
CONSTANT GenDepth

H(rec) == hist' = Append(hist, rec)

GenInit == Init /\ hist = <<>>
GenNext ==
    \/ \E i \in Item : Originate(i) /\ H([op |-> "originate", i |-> i])
    \/ \E m \in msgs : Receive(m) /\ H([op |-> "receive", f |-> m.from, t |-> m.to, i |-> m.item, gs |-> m.gs])
    \/ \E m \in msgs : Absorb(m) /\ H([op |-> "receive", f |-> m.from, t |-> m.to, i |-> m.item, gs |-> m.gs])
    \/ \E m \in seen : Duplicate(m) /\ H([op |-> "dup", f |-> m.from, t |-> m.to, i |-> m.item])
    \/ \E n \in Honest : FlashExpire(n) /\ H([op |-> "expire", n |-> n])
    \/ \E n \in Node, c \in Item : Pull(n, c) /\ H([op |-> "pull", n |-> n, c |-> c])
    \/ \E n \in Node, c \in Item : (Retry(n, c) \/ RetryDrop(n, c)) /\ H([op |-> "retry", n |-> n, c |-> c])
    \/ \E b \in Bad, t \in Node, i \in Item, v \in Node : \E k \in 1..6 :
          Forge(b, t, i, ForgeMenuSeq(b, i, v)[k]) /\ H([op |-> "forge", b |-> b, t |-> t, i |-> i, v |-> v, menu |-> k])
GenNextP == GenNext \/ (\E b \in Bad, t \in Node, i \in Item : Poison(b, t, i) /\ H([op |-> "poison", b |-> b, t |-> t, i |-> i]))
GenSpecP == GenInit /\ [][GenNextP]_<<vars, hist>>
GenSpec == GenInit /\ [][GenNext]_<<vars, hist>>

\* a duplicate is delivered like any message: mark it so that the driver redelivers instead of looking in flight
GenEmit == (Len(hist) < GenDepth /\ ENABLED GenNext) \/
           PrintT(<<"BEHAVIOUR", ToJson([peers |-> [n \in Node |-> peers[n]], ops |-> hist])>>)
=============================================================================
