------------------------------ MODULE SealTrace ------------------------------
(***************************************************************************)
(* Tampered copies of real signed vertices offered to a real node (AddLeaf) *)
(* judged against Seal.tla: each concrete mutation names the abstract       *)
(* mutation it is a member of; the node must admit the copy exactly when    *)
(* the abstract copy verifies in the model, and a refusal must leave the    *)
(* ledger unchanged.                                                        *)
(***************************************************************************)
EXTENDS Seal, Json

CONSTANT TraceFile
VARIABLES pos, ob
TLog == ndJsonDeserialize(TraceFile)

\* the honest vertex of the model with the shape the real one has
Model(cs) == MakeVertex(MakeTrx(<<"a", "b">>, <<"a", "b">>, "I", "R", 1, 1, 0, cs), "S", "p1", "p2", 1, 1)
Tampered(abs, cs) == (CHOOSE m \in MutationsOf(Model(cs)) : m[1] = abs)[2]
ModelAdmits(abs, cs) == VerifyVertex(Tampered(abs, cs))

TInit == orig = Model(FALSE) /\ cur = Model(FALSE) /\ what = "none" /\ pos = 1 /\ ob = [conf |-> TRUE, strict |-> TRUE]
TNext ==
    /\ pos <= Len(TLog)
    /\ pos' = pos + 1
    /\ LET e == TLog[pos]
           admitted == e.res = "ok" \/ e.res = "parentmissing"
       IN /\ orig' = Model(e.cs) /\ cur' = Tampered(e.abs, e.cs) /\ what' = e.abs
          /\ ob' = [conf |-> /\ e.differs => (admitted <=> ModelAdmits(e.abs, e.cs))
                             /\ (~admitted) => e.unchanged
                             /\ e.res # "panic",
                    strict |-> e.differs => ~admitted]
TSpec == TInit /\ [][TNext]_<<orig, cur, what, pos, ob>>

\* the node admits a tampered copy exactly when the model says its signatures still verify; refusals change nothing
C04_Conforms == ob.conf
\* the strict claim of C04 (fails exactly on the known findings F11 / F12)
C04_NoTamperedCopyAdmitted == ob.strict
C04_ModuloKnown == ob.strict \/ IsF11 \/ IsF12
Accepted == TLCGet("stats").diameter = Len(TLog) + 1
=============================================================================
