--------------------------- MODULE WalletFileTrace ---------------------------
(* Outcomes of reading real wallet files (truncated at every length, with every single byte changed,
   with wrong keys) judged against ReadOutcome of WalletFile.tla at the real region lengths. *)
EXTENDS WalletFile, Sequences, TLC, Json

CONSTANT TraceFile
VARIABLES pos, ok
TLog == ndJsonDeserialize(TraceFile)

TInit == file = [len |-> 0, bad |-> 0] /\ written = TRUE /\ result = "none" /\ pos = 1 /\ ok = TRUE
TNext ==
    /\ pos <= Len(TLog)
    /\ pos' = pos + 1
    /\ UNCHANGED written
    /\ LET e == TLog[pos] IN
       /\ file' = [len |-> e.len, bad |-> e.bad]
       /\ result' = e.outcome
       /\ ok' = /\ e.full = NonceLen + e.ct + TagLen
                /\ LET want == IF ~e.goodlen THEN "error"
                               ELSE IF e.len < NonceLen THEN (IF LenCheck THEN "error" ELSE "panic")
                               ELSE IF e.len = e.full /\ e.bad = 0 /\ e.same THEN "ok-same" ELSE "error"
                   IN e.outcome = want
TSpec == TInit /\ [][TNext]_<<file, written, result, pos, ok>>

\* the recorded outcome is the one the specification gives for that file and key
C20_Conforms == ok
C20_NeverPanicNeverOther == result \in {"none", "ok-same", "error"}
Accepted == TLCGet("stats").diameter = Len(TLog) + 1
=============================================================================
