----------------------------- MODULE AwaitCache -----------------------------
(***************************************************************************)
(* The awaiting-transaction index of cache.Hippocampus (C17).               *)
(*                                                                          *)
(* The cache holds two key families in bigcache: one entry per transaction  *)
(* hash, and per address a list of hashes.  Every bigcache call (Get, Set,  *)
(* Delete) is atomic; SaveAwaitedTransaction, RemoveAwaitedTransaction and  *)
(* ReadTransactions are sequences of such calls, so each is a small program *)
(* here with one step per bigcache call.  Guard selects the code:           *)
(*   "none"   the calls of different operations interleave freely (pinned   *)
(*            code: the per-address list is read-modify-write, finding F4)  *)
(*   "mutex"  one mutex around each operation (repaired code)               *)
(***************************************************************************)
EXTENDS Integers, Sequences, FiniteSets, SequencesExt, TLC

CONSTANTS Hash,        \* transaction hashes
          Addr,        \* addresses
          Iss, Rcv,    \* functions Hash -> Addr
          Slots,       \* identities of concurrently running operations
          MaxOps,      \* operations per behaviour
          ExpiryOn,    \* whether entries may expire / be evicted during a behaviour
          Guard

VARIABLES entry,   \* set of hashes that have an entry
          list,    \* Addr -> sequence of hashes, or Absent
          run,     \* Slots -> record of the running operation, or Idle
          mu,      \* holder of the mutex (0 = free)
          nops,    \* operations started so far
          last     \* result of the operation that finished last (for trace validation)

vars == <<entry, list, run, mu, nops, last>>

Absent == <<"absent">>
Idle == [op |-> "idle"]
NoRes == [op |-> "none", res |-> "none", h |-> "none", a |-> "none", out |-> <<>>]

Without(s, h) == SelectSeq(s, LAMBDA x : x # h)
Parties(h) == IF Iss[h] = Rcv[h] THEN <<Rcv[h]>> ELSE <<Iss[h], Rcv[h]>>

Init ==
    /\ entry = {} /\ list = [a \in Addr |-> Absent]
    /\ run = [c \in Slots |-> Idle] /\ mu = 0 /\ nops = 0 /\ last = NoRes

Start(c, op, h, a) ==
    /\ run[c] = Idle /\ nops < MaxOps
    /\ run' = [run EXCEPT ![c] = [op |-> op, h |-> h, a |-> a, pc |-> "lock", todo |-> <<>>, loc |-> Absent,
                                   out |-> <<>>, stale |-> <<>>]]
    /\ nops' = nops + 1
    /\ UNCHANGED <<entry, list, mu, last>>

Finish(c, res, out) ==
    /\ run' = [run EXCEPT ![c] = Idle]
    /\ mu' = IF Guard = "mutex" THEN 0 ELSE mu
    /\ last' = [op |-> run[c].op, res |-> res, h |-> run[c].h, a |-> run[c].a, out |-> out]

Goto(c, pc) == run' = [run EXCEPT ![c].pc = pc]

Lock(c) ==
    /\ run[c] # Idle /\ run[c].pc = "lock"
    /\ IF Guard = "mutex" THEN mu = 0 /\ mu' = c ELSE UNCHANGED mu
    /\ Goto(c, CASE run[c].op = "save" -> "s1" [] run[c].op = "remove" -> "r1" [] run[c].op = "read" -> "g1")
    /\ UNCHANGED <<entry, list, nops, last>>

\* ---- SaveAwaitedTransaction ----
Save1(c) == \* Get(trxKey)
    /\ run[c] # Idle /\ run[c].pc = "s1"
    /\ IF run[c].h \in entry
       THEN Finish(c, "exists", <<>>) /\ UNCHANGED <<entry, list, nops>>
       ELSE Goto(c, "s2") /\ UNCHANGED <<entry, list, mu, nops, last>>
Save2(c) == \* Set(trxKey)
    /\ run[c] # Idle /\ run[c].pc = "s2"
    /\ entry' = entry \cup {run[c].h}
    /\ run' = [run EXCEPT ![c].pc = "sget", ![c].todo = Parties(run[c].h)]
    /\ UNCHANGED <<list, mu, nops, last>>
SaveGet(c) == \* Get(addressKey)
    /\ run[c] # Idle /\ run[c].pc = "sget"
    /\ IF run[c].todo = <<>>
       THEN Finish(c, "ok", <<>>) /\ UNCHANGED <<entry, list, nops>>
       ELSE /\ run' = [run EXCEPT ![c].pc = "sset", ![c].loc = list[Head(run[c].todo)]]
            /\ UNCHANGED <<entry, list, mu, nops, last>>
SaveSet(c) == \* Set(addressKey, add(awaited, hash))
    /\ run[c] # Idle /\ run[c].pc = "sset"
    /\ LET a == Head(run[c].todo) IN
       list' = [list EXCEPT ![a] = IF run[c].loc = Absent THEN <<run[c].h>> ELSE Append(run[c].loc, run[c].h)]
    /\ run' = [run EXCEPT ![c].pc = "sget", ![c].todo = Tail(run[c].todo)]
    /\ UNCHANGED <<entry, mu, nops, last>>

\* ---- RemoveAwaitedTransaction ----
Rem1(c) == \* Get(trxKey), decode, compare the receiver
    /\ run[c] # Idle /\ run[c].pc = "r1"
    /\ IF run[c].h \notin entry THEN Finish(c, "notfound", <<>>) /\ UNCHANGED <<entry, list, nops>>
       ELSE IF Rcv[run[c].h] # run[c].a THEN Finish(c, "unauthorized", <<>>) /\ UNCHANGED <<entry, list, nops>>
       ELSE Goto(c, "r3") /\ UNCHANGED <<entry, list, mu, nops, last>>
Rem3(c) == \* Delete(trxKey)
    /\ run[c] # Idle /\ run[c].pc = "r3"
    /\ IF run[c].h \notin entry
       THEN Finish(c, "notfound", <<>>) /\ UNCHANGED <<entry, list, nops>>
       ELSE /\ entry' = entry \ {run[c].h}
            /\ run' = [run EXCEPT ![c].pc = "rget", ![c].todo = <<Iss[run[c].h], Rcv[run[c].h]>>]
            /\ UNCHANGED <<list, mu, nops, last>>
RemGet(c) == \* Get(addressKey); an empty list deletes the key
    /\ run[c] # Idle /\ run[c].pc = "rget"
    /\ IF run[c].todo = <<>>
       THEN Finish(c, "ok", <<>>) /\ UNCHANGED <<entry, list, nops>>
       ELSE LET a == Head(run[c].todo) IN
            IF list[a] = Absent
            THEN run' = [run EXCEPT ![c].todo = Tail(run[c].todo)] /\ UNCHANGED <<entry, list, mu, nops, last>>
            ELSE \/ /\ list[a] = <<>>      \* raw value of length zero: the key is deleted
                    /\ list' = [list EXCEPT ![a] = Absent]
                    /\ run' = [run EXCEPT ![c].todo = Tail(run[c].todo)] /\ UNCHANGED <<entry, mu, nops, last>>
                 \/ /\ run' = [run EXCEPT ![c].pc = "rset", ![c].loc = list[a]]   \* (an empty list whose raw
                    /\ UNCHANGED <<entry, list, mu, nops, last>>                  \*  value is only separators included)
RemSet(c) == \* Set(addressKey, remove(awaited, hash))
    /\ run[c] # Idle /\ run[c].pc = "rset"
    /\ list' = [list EXCEPT ![Head(run[c].todo)] = Without(run[c].loc, run[c].h)]
    /\ run' = [run EXCEPT ![c].pc = "rget", ![c].todo = Tail(run[c].todo)]
    /\ UNCHANGED <<entry, mu, nops, last>>

\* ---- ReadTransactions ----
Read1(c) == \* Get(addressKey)
    /\ run[c] # Idle /\ run[c].pc = "g1"
    /\ LET a == run[c].a IN
       IF list[a] = Absent THEN Finish(c, "notfound", <<>>) /\ UNCHANGED <<entry, list, nops>>
       ELSE \/ list[a] = <<>> /\ Finish(c, "notfound", <<>>) /\ list' = [list EXCEPT ![a] = Absent] /\ UNCHANGED <<entry, nops>>
            \/ run' = [run EXCEPT ![c].pc = "g2", ![c].loc = list[a]] /\ UNCHANGED <<entry, list, mu, nops, last>>
Read2(c) == \* one Get per listed hash: missing ones are stale
    /\ run[c] # Idle /\ run[c].pc = "g2"
    /\ LET got == SelectSeq(run[c].loc, LAMBDA h : h \in entry)
           stale == SelectSeq(run[c].loc, LAMBDA h : h \notin entry) IN
       IF stale = <<>> THEN Finish(c, "ok", got) /\ UNCHANGED <<entry, list, nops>>
       ELSE run' = [run EXCEPT ![c].pc = "pget", ![c].out = got, ![c].stale = stale] /\ UNCHANGED <<entry, list, mu, nops, last>>
PruneGet(c) == \* Get(addressKey) again for every stale hash
    /\ run[c] # Idle /\ run[c].pc = "pget"
    /\ IF run[c].stale = <<>> \/ list[run[c].a] = Absent \/ list[run[c].a] = <<>>
       THEN Finish(c, "ok", run[c].out) /\ UNCHANGED <<entry, list, nops>>
       ELSE run' = [run EXCEPT ![c].pc = "pset", ![c].loc = list[run[c].a]] /\ UNCHANGED <<entry, list, mu, nops, last>>
PruneSet(c) ==
    /\ run[c] # Idle /\ run[c].pc = "pset"
    /\ list' = [list EXCEPT ![run[c].a] = Without(run[c].loc, Head(run[c].stale))]
    /\ run' = [run EXCEPT ![c].pc = "pget", ![c].stale = Tail(run[c].stale)]
    /\ UNCHANGED <<entry, mu, nops, last>>

\* bigcache drops an entry when its life window (5 min) has passed or its shard is full; the per-address lists are
\* entries of their own and keep naming the hash until a reader prunes it
Expire(h) ==
    /\ ExpiryOn /\ h \in entry
    /\ \A c \in Slots : IF run[c] = Idle THEN TRUE ELSE run[c].h # h
    /\ entry' = entry \ {h}
    /\ last' = [op |-> "expire", res |-> "ok", h |-> h, a |-> "none", out |-> <<>>]
    /\ UNCHANGED <<list, run, mu, nops>>

StepOf(c) ==
    \/ Lock(c) \/ Save1(c) \/ Save2(c) \/ SaveGet(c) \/ SaveSet(c)
    \/ Rem1(c) \/ Rem3(c) \/ RemGet(c) \/ RemSet(c)
    \/ Read1(c) \/ Read2(c) \/ PruneGet(c) \/ PruneSet(c)

Next ==
    \/ \E c \in Slots, h \in Hash : Start(c, "save", h, "none")
    \/ \E c \in Slots, h \in Hash, a \in Addr : Start(c, "remove", h, a)
    \/ \E c \in Slots, a \in Addr : Start(c, "read", "none", a)
    \/ \E c \in Slots : StepOf(c)
    \/ \E h \in Hash : Expire(h)

Spec == Init /\ [][Next]_vars

----------------------------------------------------------------------------
(* Properties (C17) *)

Quiescent == \A c \in Slots : run[c] = Idle
ListOf(a) == IF list[a] = Absent THEN <<>> ELSE list[a]
\* what a reader is shown for address a
Shown(a) == SelectSeq(ListOf(a), LAMBDA h : h \in entry)

\* every awaiting transaction is listed for its issuer and its receiver, nothing else is listed, nothing twice
C17_ListsExact ==
    Quiescent => \A a \in Addr :
        /\ ToSet(Shown(a)) = {h \in entry : a \in {Iss[h], Rcv[h]}}
        /\ Cardinality(ToSet(Shown(a))) = Len(Shown(a))

\* only the receiver removes
C17_OnlyReceiverRemoves ==
    [][\A h \in entry \ entry' :
          \/ \E c \in Slots : IF run[c] = Idle THEN FALSE ELSE run[c].op = "remove" /\ run[c].h = h /\ run[c].a = Rcv[h]
          \/ last'.op = "expire" /\ last'.h = h]_vars

TypeOK == \A a \in Addr : list[a] = Absent \/ \A i \in DOMAIN list[a] : list[a][i] \in Hash
=============================================================================
