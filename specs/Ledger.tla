------------------------------- MODULE Ledger -------------------------------
(***************************************************************************)
(* Accounting books of Computantis nodes (src/accountant).                  *)
(*                                                                          *)
(* One variable `book` holds, per node, the abstract state that the         *)
(* read-only snapshot hook projects from a real AccountingBook; `vtx` is    *)
(* the world of all vertices ever created (content is immutable and         *)
(* self-authenticating, so it is shared); `inflight` holds operations that  *)
(* passed their pre-lock checks but have not yet taken ab.mux.              *)
(*                                                                          *)
(* Every operation of the code is an operator returning the SET of          *)
(* outcomes [res, b, ...] the code may produce from a book b (Go map        *)
(* iteration order and the graph library's BFS sibling order are the only   *)
(* sources of nondeterminism).  The bounded model (LedgerMC) picks any       *)
(* outcome; the trace specification (LedgerTrace) demands that the outcome  *)
(* recorded from the real code is a member of the set.                      *)
(***************************************************************************)
EXTENDS Integers, Sequences, FiniteSets, FiniteSetsExt, SequencesExt, TLC

CONSTANTS
    Node,            \* sealing nodes; a node is identified with its wallet
    Wallet,          \* all wallet names (Node \subseteq Wallet)
    GR,              \* receiver of the genesis transfer
    Supply,          \* genesis amount
    InitThr,         \* initialThroughput (50 in the code)
    TruncDepth,      \* truncateDiff (1000 in the code; overridable via hook)
    MaxParked,       \* maxArraySize (500)
    MaxRepeats,      \* maxRepeats (25)
    RootRule,        \* "genesis": only the genesis vertex is valid by being a root (repaired code);
                     \* "anyroot": every live root is valid without accounting (pinned code, finding F9)
    CanonRule,       \* "guarded": amounts with supplementary >= 10^18 are refused where transactions enter the
                     \* ledger (repaired code); "none": nothing checks it (pinned code, finding F7b)
    CkSelf,          \* "both": a checkpointed self-transfer counts on both sides (repaired code);
                     \* "incomeonly": its outflow is lost (pinned code, finding F8)
    NoTipRule        \* "error": a proposal on a ledger without a valid tip is refused (repaired code);
                     \* "panic": the nil test after the second look at the tips is inverted and the proposal
                     \* dereferences a nil tip (pinned code, finding F18)

VARIABLES book, vtx, inflight

vars == <<book, vtx, inflight>>

NoV == 0
NoW == "none"

Max2(a, b) == IF a >= b THEN a ELSE b

(***************************************************************************)
(* Transactions are records [id, iss, rcv, amt, data, nc] (nc: the amount    *)
(* is not canonical, supplementary >= 10^18); vertices are                   *)
(* records [trx, sealer, l, r, w, ok].  `ok` is FALSE for a vertex whose    *)
(* hash or one of whose signatures does not verify.                         *)
(***************************************************************************)
IsSpice(t) == t.amt > 0
IsEmptyTrx(t) == ~t.data /\ t.amt = 0

GenesisTrx(n) == [id |-> "g", iss |-> n, rcv |-> GR, amt |-> Supply, data |-> FALSE, nc |-> FALSE]
GenesisVtx(n) == [trx |-> GenesisTrx(n), sealer |-> n, l |-> NoV, r |-> NoV, w |-> 0, ok |-> TRUE]

V(v) == vtx[v]
T(v) == vtx[v].trx

EmptyBook(trxIds) ==
    [live |-> {}, edges |-> {}, stored |-> {}, ck |-> [w \in Wallet |-> 0],
     index |-> [t \in trxIds |-> NoV], trusted |-> {}, parked |-> <<>>,
     wgt |-> 0, thr |-> 0, loaded |-> FALSE, gen |-> NoW]

----------------------------------------------------------------------------
(* Graph operators over a book b *)

TipsOf(b)  == {v \in b.live : ~\E e \in b.edges : e[1] = v}
RootsOf(b) == {v \in b.live : ~\E e \in b.edges : e[2] = v}
ParentsIn(b, v) == {e[1] : e \in {f \in b.edges : f[2] = v}}
ChildrenIn(b, v) == {e[2] : e \in {f \in b.edges : f[1] = v}}

RECURSIVE UpClosure(_, _)
UpClosure(b, S) ==
    LET P == UNION {ParentsIn(b, v) : v \in S}
    IN  IF P \subseteq S THEN S ELSE UpClosure(b, S \cup P)

\* proper ancestors of v inside the live graph
Anc(b, v) == LET P == ParentsIn(b, v) IN IF P = {} THEN {} ELSE UpClosure(b, P)

\* edges the code must hold: declared parents that are live
DeclaredParents(v) == {V(v).l, V(v).r} \ {NoV}
DerivedEdges(b) == {<<p, c>> \in b.live \X b.live : p \in DeclaredParents(c)}

In(S, w)  == FoldSet(LAMBDA v, acc : acc + (IF IsSpice(T(v)) /\ T(v).rcv = w THEN T(v).amt ELSE 0), 0, S)
Out(S, w) == FoldSet(LAMBDA v, acc : acc + (IF IsSpice(T(v)) /\ T(v).iss = w THEN T(v).amt ELSE 0), 0, S)

----------------------------------------------------------------------------
(* validateLeaf, isValidWeight, updateWeightAndThroughput *)

ValidWeight(b, w) == b.thr > b.wgt \/ w >= b.wgt - b.thr

\* the accounting test alone: checkpoint + inflow covers outflow over {x} + ancestors
FundsOK(b, x) ==
    LET H == {x} \cup Anc(b, x)
        i == T(x).iss
    IN  b.ck[i] + In(H, i) >= Out(H, i)

\* validateLeaf's shortcut for roots
RootShortcut(b, x) ==
    /\ x \in RootsOf(b)
    /\ RootRule = "genesis" => T(x).iss = b.gen

\* the parent test of the trusted / data-only branch: in the graph (pinned code),
\* in the graph or checkpointed (repaired code)
ParentsKnown(b, x) ==
    IF RootRule = "genesis" THEN DeclaredParents(x) \subseteq b.live \cup b.stored
    ELSE {V(x).l, V(x).r} \subseteq b.live

ValidLeaf(b, x) ==
    /\ ValidWeight(b, V(x).w)
    /\ V(x).ok
    /\ IF RootShortcut(b, x) THEN TRUE
       ELSE IF ~IsSpice(T(x)) \/ V(x).sealer \in b.trusted
            THEN ParentsKnown(b, x)
            ELSE FundsOK(b, x)

\* Validation under a cancelled context.  The context is looked at once per ancestor that the graph walk yields, i.e.
\* only when the validation gets as far as the accounting walk and there is an ancestor to visit; the interrupted
\* validation is then reported like a failed one - and the callers DROP the tip (named deviation: a valid tentative
\* tip is lost because the caller of a proposal or of a gossip delivery went away).
ReachesWalk(b, x) ==
    /\ ValidWeight(b, V(x).w) /\ V(x).ok /\ ~RootShortcut(b, x)
    /\ IsSpice(T(x)) /\ V(x).sealer \notin b.trusted
    /\ Anc(b, x) # {}
ValidLeafC(b, x, cancelled) == IF cancelled /\ ReachesWalk(b, x) THEN FALSE ELSE ValidLeaf(b, x)

Bump(b, w) == [b EXCEPT !.wgt = Max2(@, w), !.thr = @ + Cardinality(TipsOf(b)) + 1]

RemoveVertex(b, x) ==
    [b EXCEPT !.live = @ \ {x},
              !.edges = {e \in @ : e[1] # x /\ e[2] # x},
              !.index = [@ EXCEPT ![T(x).id] = NoV]]

\* getValidLeaves drops an invalid tip and bumps the counters with its weight
DropTipBump(b, x) == Bump(RemoveVertex(b, x), V(x).w)

AddVertex(b, v) ==
    [b EXCEPT !.live = @ \cup {v},
              !.edges = @ \cup {<<p, v>> : p \in DeclaredParents(v)},
              !.index = [@ EXCEPT ![T(v).id] = v]]

----------------------------------------------------------------------------
(* CreateLeaf *)

ProposeGuard(b, n, t) ==
    IF ~b.loaded THEN "notloaded"
    ELSE IF IsEmptyTrx(t) THEN "empty"
    ELSE IF t.nc /\ CanonRule = "guarded" THEN "noncanonical"
    ELSE IF t.iss = n THEN "ownnode"
    ELSE IF t.iss = b.gen THEN "genesisissuer"
    ELSE IF b.index[t.id] # NoV THEN "trxexists"
    ELSE "pass"

\* one pass of getValidLeaves over a snapshot `ord` of the tips.  `bad` is TRUE when the last tip
\* examined was invalid: the function's named error result then still holds that validation error
\* when the loop ends, and CreateLeaf returns it (after the deletions) instead of building a vertex.
\* k is the number of tips that are still examined before the caller's context is cancelled (NoCancel: never)
NoCancel == 1000
RECURSIVE PassC(_, _, _, _, _)
PassC(b, ord, sel, bad, k) ==
    IF ord = <<>> \/ Len(sel) = 2 THEN [b |-> b, sel |-> sel, bad |-> bad, k |-> k]
    ELSE LET x == Head(ord)
             k2 == IF k > 0 THEN k - 1 ELSE 0 IN
         IF ValidLeafC(b, x, k = 0) THEN PassC(b, Tail(ord), Append(sel, x), FALSE, k2)
         ELSE PassC(DropTipBump(b, x), Tail(ord), sel, TRUE, k2)
Pass(b, ord, sel, bad) == PassC(b, ord, sel, bad, NoCancel)

NewLeaf(n, t, sel) ==
    LET l == sel[1]
        r == IF Len(sel) = 2 THEN sel[2] ELSE sel[1]
    IN  [trx |-> t, sealer |-> n, l |-> l, r |-> r, w |-> Max2(V(l).w, V(r).w) + 1, ok |-> TRUE]

\* the part of CreateLeaf executed under ab.mux; id is the identity the new vertex will get
ProposeOutcomesC(b, n, t, id, K) ==
    UNION { UNION {
      LET p1 == PassC(b, ord, <<>>, FALSE, k) IN
      IF p1.bad THEN {[res |-> "tipinvalid", b |-> p1.b, new |-> <<>>]}
      ELSE IF p1.sel # <<>>
      THEN {IF p1.b.index[t.id] # NoV
            THEN [res |-> "unexpected", b |-> p1.b, new |-> <<>>]
            ELSE LET nv == NewLeaf(n, t, p1.sel) IN
                 [res |-> "ok", new |-> <<nv>>,
                  b |-> [p1.b EXCEPT !.live = @ \cup {id},
                                     !.edges = @ \cup {<<nv.l, id>>, <<nv.r, id>>},
                                     !.index = [@ EXCEPT ![t.id] = id]]]}
      ELSE \* no tip in the first snapshot: the tips are looked at once more
           UNION {LET p2 == PassC(p1.b, ord2, <<>>, FALSE, p1.k) IN
              IF p2.bad THEN {[res |-> "tipinvalid", b |-> p2.b, new |-> <<>>]}
              ELSE IF NoTipRule = "panic"
              THEN {[res |-> IF p2.sel # <<>> THEN "unexpected" ELSE "panic", b |-> p2.b, new |-> <<>>]}
              ELSE IF p2.sel = <<>> \/ p2.b.index[t.id] # NoV
              THEN {[res |-> "unexpected", b |-> p2.b, new |-> <<>>]}
              ELSE LET nv == NewLeaf(n, t, p2.sel) IN
                   {[res |-> "ok", new |-> <<nv>>,
                     b |-> [p2.b EXCEPT !.live = @ \cup {id},
                                        !.edges = @ \cup {<<nv.l, id>>, <<nv.r, id>>},
                                        !.index = [@ EXCEPT ![t.id] = id]]]}
            : ord2 \in SetToSeqs(TipsOf(p1.b))}
      : ord \in SetToSeqs(TipsOf(b))} : k \in K}
ProposeCommitOutcomes(b, n, t, id) == ProposeOutcomesC(b, n, t, id, {NoCancel})
\* the caller's context is cancelled before the k-th tip is examined, for some k
ProposeCancelledOutcomes(b, n, t, id) == ProposeOutcomesC(b, n, t, id, 0..Cardinality(TipsOf(b)) \cup {NoCancel})

----------------------------------------------------------------------------
(* AddLeaf / addLeafMemorized *)

\* checks of AddLeaf itself (skipped by the retry path)
DeliverFrontGuard(b, v) ==
    IF ~b.loaded THEN "notloaded"
    ELSE IF T(v).iss = V(v).sealer THEN "ownnode"
    ELSE IF IsEmptyTrx(T(v)) THEN "empty"
    ELSE IF T(v).nc /\ CanonRule = "guarded" THEN "noncanonical"
    ELSE "pass"

\* checks of addLeafMemorized before the lock
DeliverGuard(b, v) ==
    IF T(v).iss = b.gen THEN "genesisissuer"
    ELSE IF v \in b.live \cup b.stored THEN "exists"
    ELSE IF b.index[T(v).id] # NoV THEN "trxexists"
    ELSE IF ~V(v).ok THEN "rejected"
    ELSE "pass"

Park(b, v, rep) ==
    IF Len(b.parked) >= MaxParked \/ rep > MaxRepeats
    THEN [res |-> "rejected", b |-> b]
    ELSE [res |-> "parentmissing", b |-> [b EXCEPT !.parked = Append(@, [v |-> v, rep |-> rep + 1])]]

\* examine one declared parent h of v; returns [res, b] with res = "go" to continue
ExamineParentC(b, v, rep, h, cancelled) ==
    IF h \notin b.live THEN Park(b, v, rep)
    ELSE IF h \in TipsOf(b)
         THEN IF ValidLeafC(b, h, cancelled) THEN [res |-> "go", b |-> Bump(b, V(h).w)]
              ELSE [res |-> "rejected", b |-> RemoveVertex(b, h)]
         ELSE [res |-> "go", b |-> b]
ExamineParent(b, v, rep, h) == ExamineParentC(b, v, rep, h, FALSE)

\* the part of addLeafMemorized executed under ab.mux (deterministic); c1 / c2: the caller's context is cancelled
\* by the time the left / right parent is validated
DeliverOutcomeC(b, v, rep, c1, c2) ==
    LET e1 == ExamineParentC(b, v, rep, V(v).l, c1) IN
    IF e1.res # "go" THEN e1
    ELSE LET e2 == ExamineParentC(e1.b, v, rep, V(v).r, c2) IN
         IF e2.res # "go" THEN e2
         ELSE IF e2.b.index[T(v).id] # NoV THEN [res |-> "unexpected", b |-> e2.b]
         ELSE IF v \in e2.b.live THEN [res |-> "rejected", b |-> e2.b]
         ELSE [res |-> "ok", b |-> AddVertex(e2.b, v)]
DeliverCommitOutcome(b, v, rep) == DeliverOutcomeC(b, v, rep, FALSE, FALSE)
DeliverCancelledOutcomes(b, v, rep) ==
    {DeliverOutcomeC(b, v, rep, c[1], c[2]) : c \in {<<FALSE, FALSE>>, <<FALSE, TRUE>>, <<TRUE, TRUE>>}}

----------------------------------------------------------------------------
(* truncate *)

RECURSIVE Levels(_, _, _, _)
\* BFS levels above a frontier: sequence of disjoint sets
Levels(b, frontier, seen, acc) ==
    IF frontier = {} THEN acc
    ELSE LET nxt == (UNION {ParentsIn(b, v) : v \in frontier}) \ (seen \cup frontier)
         IN  Levels(b, nxt, seen \cup frontier, Append(acc, frontier))

\* vertices that can be the d-th ancestor emitted by the library's breadth first walk from tip
CutCandidates(b, tip, d) ==
    LET lv == Levels(b, ParentsIn(b, tip), {}, <<>>)
        Cum(k) == FoldSet(LAMBDA i, a : a + Cardinality(lv[i]), 0, 1..k)
    IN  UNION {IF Cum(k - 1) < d /\ d <= Cum(k) THEN lv[k] ELSE {} : k \in 1..Len(lv)}

\* checkpoint arithmetic of fundsMemMap: previous funds + inflow, minus outflow when it fits
CkAfter(b, M) ==
    [w \in Wallet |->
        LET i == b.ck[w] + In(M, w)
            o == IF CkSelf = "both" THEN Out(M, w)
                 ELSE Out({v \in M : T(v).rcv # w}, w)
        IN  IF i >= o THEN i - o ELSE i]

TruncateTo(b, cut) ==
    LET M == Anc(b, cut) IN
    [b EXCEPT !.stored = @ \cup M,
              !.ck = CkAfter(b, M),
              !.live = @ \ M,
              !.edges = {e \in @ : e[1] \notin M /\ e[2] \notin M}]

TruncateOutcomes(b) ==
    IF TipsOf(b) = {} THEN {[res |-> "ok", b |-> b]}
    ELSE UNION {
           LET C == CutCandidates(b, tip, TruncDepth) IN
           IF C = {} THEN {[res |-> "ok", b |-> b]}     \* fewer ancestors than the depth: nothing to move
           ELSE UNION {
                  LET M == Anc(b, c) IN
                  IF M \cap b.stored = {} THEN {[res |-> "ok", b |-> TruncateTo(b, c)]}
                  \* only after a cancelled truncation: a vertex below the cut is in the store already, copying it
                  \* fails, and the truncation stops there - after every attempt for good
                  ELSE {[res |-> "error", b |-> [b EXCEPT !.stored = @ \cup X]] : X \in SUBSET (M \ b.stored)}
                : c \in C}
         : tip \in TipsOf(b)}

\* A truncation whose context is cancelled at one of the inspections of the three walks (the context is the node's
\* root context: shutdown).  What the code does is NOT atomic, and is modelled as it is:
\*   first walk   the cut is not found: nothing happens and the call reports success;
\*   second walk  (per vertex: add to the funds map, copy the vertex to the store) - some of the vertices below the
\*                cut are in the store AND still in the graph, the checkpointed funds are the old ones;
\*   third walk   (collect the ids to delete) - every vertex below the cut is in the store, the funds are the new
\*                ones, and the vertices are still in the graph;
\*   too late     the truncation completes.
\* The two atomic outcomes (nothing / everything) are allowed with either result.
TruncateCancelledOutcomes(b) ==
    IF TipsOf(b) = {} THEN {[res |-> "ok", b |-> b]}
    ELSE UNION {
           LET C == CutCandidates(b, tip, TruncDepth) IN
           {[res |-> r, b |-> b] : r \in {"ok", "error"}}
           \cup UNION {
                 LET M == Anc(b, c) IN
                 {[res |-> r, b |-> TruncateTo(b, c)] : r \in {"ok", "error"}}
                 \cup {[res |-> "error", b |-> [b EXCEPT !.stored = @ \cup X]] : X \in SUBSET M}
                 \cup {[res |-> "error", b |-> [b EXCEPT !.stored = @ \cup M, !.ck = CkAfter(b, M)]]}
               : c \in C}
         : tip \in TipsOf(b)}

----------------------------------------------------------------------------
(* read-only operations *)

BalanceAt(b, tip, w) == LET H == {tip} \cup Anc(b, tip) IN b.ck[w] + In(H, w) - Out(H, w)

\* CalculateBalance: any tip; a negative sum is an error, never a number
BalanceOutcomes(b, w) ==
    IF TipsOf(b) = {} THEN {[res |-> "error", val |-> 0]}
    ELSE {LET x == BalanceAt(b, tip, w) IN
            IF x < 0 THEN [res |-> "error", val |-> 0] ELSE [res |-> "ok", val |-> x]
          : tip \in TipsOf(b)}

\* ReadDAGTransactionsByAddress: the transactions of one tip and its live ancestors that name the address
\* (nothing from the checkpointed part)
HistoryOutcomes(b, w) ==
    IF TipsOf(b) = {} THEN {[res |-> "error", out |-> {}]}
    ELSE {[res |-> "ok", out |-> {T(v).id : v \in {x \in {tip} \cup Anc(b, tip) : w \in {T(x).iss, T(x).rcv}}}] : tip \in TipsOf(b)}

\* ReadTransactionByHash: through the index, then graph, then store
ReadTrxOutcome(b, tid) ==
    LET v == b.index[tid] IN
    IF v = NoV THEN [res |-> "notfound", v |-> NoV]
    ELSE IF v \in b.live \cup b.stored THEN [res |-> "ok", v |-> v]
    ELSE [res |-> "notfound", v |-> NoV]

ReadVertexOutcome(b, v) == IF v \in b.live \cup b.stored THEN "ok" ELSE "notfound"

----------------------------------------------------------------------------
(* StreamDAG / LoadDag *)

\* phase 1 of LoadDag: index and graph insertion in stream order
RECURSIVE LoadInsert(_, _)
LoadInsert(b, s) ==
    IF s = <<>> THEN [res |-> "go", b |-> b]
    ELSE LET v == Head(s) IN
         IF b.index[T(v).id] # NoV THEN [res |-> "abort", b |-> b]
         ELSE IF v \in b.live
              THEN [res |-> "abort", b |-> [b EXCEPT !.index = [@ EXCEPT ![T(v).id] = v]]]
              ELSE LoadInsert([b EXCEPT !.live = @ \cup {v}, !.index = [@ EXCEPT ![T(v).id] = v]], Tail(s))

\* phase 2 verdict: at most one self-sealed vertex, no empty transaction, every declared parent present
LoadLinkOK(b) ==
    /\ Cardinality({v \in b.live : T(v).iss = V(v).sealer}) <= 1
    /\ \A v \in b.live : ~IsEmptyTrx(T(v))
    /\ CanonRule = "guarded" => \A v \in b.live : ~T(v).nc
    /\ \A v \in b.live : DeclaredParents(v) \subseteq b.live

\* a vertex whose two declared parents are NoV links nothing (both equal the initial addedHash);
\* a vertex with l = NoV and r # NoV stops at the first comparison as well
LoadEdges(b) == {<<p, c>> \in b.live \X b.live : p \in DeclaredParents(c) /\ V(c).l # NoV}

\* LoadDag into book b from the sequence s.  An aborted load leaves a half filled graph whose
\* edge set depends on map order; the abort outcome therefore only fixes live and index and the
\* trace specification accepts any subset of the declared edges.
LoadOutcomes(b, s) ==
    IF b.loaded THEN {[res |-> "alreadyloaded", b |-> b]}
    ELSE LET p == LoadInsert(b, s) IN
         IF p.res = "abort" THEN {[res |-> "abort", b |-> p.b]}
         ELSE IF ~LoadLinkOK(p.b) \/ RootsOf([p.b EXCEPT !.edges = LoadEdges(p.b)]) = {}
              THEN {[res |-> "abort", b |-> p.b]}
              ELSE LET q == [p.b EXCEPT !.edges = LoadEdges(p.b)] IN
                   {[res |-> "ok",
                     b |-> [q EXCEPT !.loaded = TRUE, !.gen = T(root).iss,
                                     !.wgt = Max2(@, InitThr), !.thr = InitThr]]
                    : root \in RootsOf(q)}

StreamOrders(b) == SetToSeqs(b.live)

----------------------------------------------------------------------------
(* CreateGenesis *)

GenesisOutcome(b, n, id) ==
    IF GR = n THEN [res |-> "rejected", b |-> b]
    ELSE IF b.index["g"] # NoV THEN [res |-> "rejected", b |-> b]
    ELSE [res |-> "ok",
          b |-> [b EXCEPT !.live = @ \cup {id}, !.index = [@ EXCEPT !["g"] = id],
                          !.wgt = InitThr,
                          !.thr = InitThr + Cardinality(TipsOf([b EXCEPT !.live = @ \cup {id}])) + 1,
                          !.loaded = TRUE, !.gen = n]]

----------------------------------------------------------------------------
(* Properties *)

Loaded == {n \in Node : book[n].loaded}
Held(b) == b.live \cup b.stored
IsGenesisV(v) == V(v).l = NoV /\ V(v).r = NoV /\ T(v).id = "g"

TypeOK ==
    /\ \A n \in Node :
        /\ book[n].live \subseteq 1..Len(vtx)
        /\ book[n].stored \subseteq 1..Len(vtx)
        /\ book[n].live \cap book[n].stored = {}
        /\ \A w \in Wallet : book[n].ck[w] >= 0
        /\ Len(book[n].parked) <= MaxParked
    /\ \A v \in 1..Len(vtx) : V(v).l < v /\ V(v).r < v

\* C03: a transaction is held by at most one vertex; the index is exact
C03_UniqueTrx ==
    \A n \in Loaded : \A v1, v2 \in Held(book[n]) : T(v1).id = T(v2).id => v1 = v2
C03_IndexExact ==
    \A n \in Loaded :
        /\ \A tid \in DOMAIN book[n].index : book[n].index[tid] # NoV =>
               book[n].index[tid] \in Held(book[n]) /\ T(book[n].index[tid]).id = tid
        /\ \A v \in Held(book[n]) : book[n].index[T(v).id] = v
\* a vertex removed from the graph without being checkpointed leaves no index entry behind
\* (a step that resets the world, which only trace validation has, is exempt from all step properties)
NotReset == vtx' # <<>>
C03_Step == \A n \in Node : \A v \in book[n].live \ Held(book'[n]) : book'[n].index[T(v).id] # v
C03_Reproposable == [][NotReset => C03_Step]_vars

\* C09: library edges are exactly the declared parents that are live; the rest is checkpointed
C09_WellFormed ==
    \A n \in Loaded :
        /\ book[n].edges = DerivedEdges(book[n])
        /\ \A v \in book[n].live : DeclaredParents(v) \subseteq Held(book[n])
\* a locally created vertex names valid tips of the pre-state and has weight max + 1
C09_Step ==
    Len(vtx') = Len(vtx) + 1 /\ (\E n \in Node : Len(vtx') \in book'[n].live) =>
        LET id == Len(vtx') nv == vtx'[id]
            isGen == nv.l = NoV /\ nv.r = NoV /\ nv.trx.id = "g" IN
        \A n \in Node : id \in book'[n].live =>
            /\ {nv.l, nv.r} \subseteq TipsOf(book[n]) \/ isGen
            /\ isGen \/ nv.w = Max2(V(nv.l).w, V(nv.r).w) + 1
C09_LocalCreate == [][NotReset => C09_Step]_vars

\* C10: sealing rules
\* "the genesis vertex" of a ledger is the parentless vertex issued and sealed by the wallet the ledger took as its genesis
\* wallet: the vertex CreateGenesis made, or - on a node that synced - the self-sealed root of the stream it was given
\* (LoadDag authenticates nothing; what a forged stream can make a node believe is an observation, not this property)
IsGenesisOf(b, v) == V(v).l = NoV /\ V(v).r = NoV /\ T(v).iss = b.gen /\ V(v).sealer = b.gen
C10_SealingRules ==
    \A n \in Loaded : \A v \in Held(book[n]) :
        \/ IsGenesisOf(book[n], v) /\ T(v).rcv # T(v).iss
        \/ /\ T(v).iss # V(v).sealer
           /\ T(v).iss # book[n].gen
           /\ ~IsEmptyTrx(T(v))

\* C05 (ledger side): an amount that is not canonical is never accepted into the ledger
C05_CanonicalOnly == \A n \in Loaded : \A v \in Held(book[n]) : ~T(v).nc

\* C01: a spice transfer sealed by a non-trusted node gains its first child only if the funds of
\* its issuer in the history it builds on cover all the issuer's spends there
NewlyConfirmed(n) ==
    {v \in book[n].live \cap book'[n].live :
        ChildrenIn(book[n], v) = {} /\ ChildrenIn(book'[n], v) # {}}
C01_Step ==
    \A n \in Node : \A v \in NewlyConfirmed(n) :
        (IsSpice(T(v)) /\ V(v).sealer \notin book[n].trusted /\ T(v).iss # book[n].gen)
            => FundsOK(book[n], v)
C01_NoOverdraftConfirmed == [][NotReset => C01_Step]_vars
\* only checkpointed ancestors and tips (possibly one after another inside one call) leave the graph:
\* whatever is dropped takes all its descendants with it, nothing is left dangling
C01_DropStep ==
    \A n \in Node : \A v \in book[n].live \ book'[n].live :
        v \in book'[n].stored \/ ChildrenIn(book[n], v) \subseteq book[n].live \ book'[n].live
C01_OnlyTipsDropped == [][NotReset => C01_DropStep]_vars

\* C07: truncation steps
IsTruncStep(n) == book'[n].stored # book[n].stored /\ book[n].stored \subseteq book'[n].stored
Moved(n) == book'[n].stored \ book[n].stored
DescTips(n) == {t \in TipsOf(book'[n]) : Moved(n) \subseteq Anc(book[n], t)}
C07_Step ==
    \A n \in Node : IsTruncStep(n) =>
        LET b == book[n] b2 == book'[n] M == Moved(n) IN
        /\ b.stored \subseteq b2.stored
        /\ b2.live = b.live \ M
        /\ \A v \in M : Anc(b, v) \subseteq M                      \* ancestor closed
        /\ b2.index = b.index                                       \* lookups and uniqueness survive
        /\ \A w \in Wallet \ {b.gen} :
              b.ck[w] + In(M, w) >= Out(M, w) =>
                  b2.ck[w] = b.ck[w] + In(M, w) - Out(M, w)         \* net flow of exactly M, each once
        /\ \A t \in DescTips(n) : \A w \in Wallet \ {b.gen} :
              b.ck[w] + In(M, w) >= Out(M, w) =>
                  BalanceAt(b2, t, w) = BalanceAt(b, t, w)          \* balances unchanged
        /\ \A t \in DescTips(n) :
              (\A w \in Wallet \ {b.gen} : b.ck[w] + In(M, w) >= Out(M, w))
                  => (ValidLeaf(b2, t) <=> ValidLeaf(b, t))         \* same funds for later transfers
C07_Transparent == [][NotReset => C07_Step]_vars

\* C14: a successful load reproduces the source
C14_Step ==
    \A m \in Node : (~book[m].loaded /\ book'[m].loaded /\ vtx # <<>>) =>
        \E n \in Node \ {m} :
            /\ book'[m].live = book[n].live
            /\ book'[m].edges = book[n].edges
            /\ book'[m].gen = book[n].gen
            /\ \A tid \in DOMAIN book[n].index : book[n].index[tid] \in book[n].live => book'[m].index[tid] = book[n].index[tid]
            /\ book[n].stored = {} => \A w \in Wallet : BalanceOutcomes(book'[m], w) = BalanceOutcomes(book[n], w)
C14_LoadEqualsSource == [][NotReset => C14_Step]_vars

\* C02: conservation over the union of confirmed vertices at quiescent points.  The property is about ledgers in which
\* no confirmed vertex was sealed under the trusted-node exemption; the behaviours of the C02 check therefore never
\* trust a sealing node, and vertices of currently trusted sealers are left out of the sums.
Confirmed(b) == {v \in b.live : ChildrenIn(b, v) # {}} \cup b.stored
Quiescent == \A n \in Node : inflight[n] = {}
C02_NoOverdraftUnion ==
    Quiescent => \A n \in Loaded :
        LET C == {v \in Confirmed(book[n]) : V(v).sealer \notin book[n].trusted} IN
        \A w \in Wallet \ {book[n].gen} : In(C, w) >= Out(C, w)
\* signature of known finding F10: two confirmed spends of the overdrawn wallet that are incomparable.  One of them
\* (or both) may have been checkpointed since, so ancestry is taken from the parents the vertices declare.
RECURSIVE DeclAnc(_)
DeclAnc(v) == LET ps == {V(v).l, V(v).r} \ {NoV} IN ps \cup UNION {DeclAnc(p) : p \in ps}
C02_SignatureF10 ==
    \A n \in Loaded :
        LET C == {v \in Confirmed(book[n]) : V(v).sealer \notin book[n].trusted} IN
        \A w \in Wallet \ {book[n].gen} : In(C, w) < Out(C, w) =>
            \E v1, v2 \in {v \in C : T(v).iss = w /\ IsSpice(T(v))} :
                v1 # v2 /\ v1 \notin DeclAnc(v2) /\ v2 \notin DeclAnc(v1)
C02_ModuloF10 == C02_NoOverdraftUnion \/ C02_SignatureF10


=============================================================================
