---------------------------- MODULE AwaitCacheMC ----------------------------
EXTENDS AwaitCache
MCIss == ("h1" :> "A") @@ ("h2" :> "B") @@ ("h3" :> "A")
MCRcv == ("h1" :> "B") @@ ("h2" :> "A") @@ ("h3" :> "A")
View == <<entry, list, run, mu>>
StateConstraint == nops <= MaxOps
=============================================================================
