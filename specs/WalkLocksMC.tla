----------------------------- MODULE WalkLocksMC -----------------------------
EXTENDS WalkLocks
(* operation sets of the bounded runs; the runner picks one per TLC run *)
R(k) == [kind |-> "read", k |-> k]
W == [kind |-> "write", k |-> 0]
Tr(d) == [kind |-> "truncate", k |-> d]
S == [kind |-> "stream", k |-> 0]

Ops_RW0 == (1 :> R(0)) @@ (2 :> W)
Ops_RW1 == (1 :> R(1)) @@ (2 :> W)
Ops_RW2 == (1 :> R(2)) @@ (2 :> W)
Ops_RW3 == (1 :> R(3)) @@ (2 :> W)
Ops_RWfull == (1 :> R(NAnc + 1)) @@ (2 :> W)
Ops_RRW == (1 :> R(1)) @@ (2 :> R(2)) @@ (3 :> W)
Ops_T1 == (1 :> Tr(1)) @@ (2 :> R(1))
Ops_T2 == (1 :> Tr(2)) @@ (2 :> R(NAnc + 1))
Ops_T3 == (1 :> Tr(NAnc)) @@ (2 :> W)
Ops_SW == (1 :> S) @@ (2 :> W)
Ops_SWR == (1 :> S) @@ (2 :> W) @@ (3 :> R(1))
Ops_SSW == (1 :> S) @@ (2 :> S) @@ (3 :> W)
Ops_STW == (1 :> S) @@ (2 :> Tr(1))
Ops_WWW == (1 :> W) @@ (2 :> W) @@ (3 :> W)           \* more admissions than the signal channel holds
=============================================================================
