#!/usr/bin/env python3
"""Debug helper: print the events around a violation recorded in a replay file's group dir."""
import json, sys, glob, os
d, pos, n = sys.argv[1], int(sys.argv[2]), int(sys.argv[3]) if len(sys.argv) > 3 else 6
lines = open(os.path.join(d, "trace.ndjson")).read().split("\n")
for i in range(max(0, pos - 1 - n), pos):
    e = json.loads(lines[i])
    st = e.pop("st", None)
    e.pop("cfg", None)
    print(i + 1, json.dumps(e)[:400])
    if st:
        print("     st:", json.dumps({k: st[k] for k in ("live", "edges", "stored", "ck", "index", "trusted", "parked", "wgt", "thr")})[:500])
