"""C17: the awaiting-transaction index never loses or invents entries (AwaitCache.tla + cache driver)."""
import json
import os
import re
import subprocess
import time

from common import (Inconclusive, NCPU, TLC_CP, build_harness, copy_specs, log, rundir, save_replay, seed,
                    tlc_failed, tlc_stats, tlc_violation, write_cfg, write_evidence)

CODE_MODEL = {"Guard": '"mutex"'}


def run_mc(wd, tier):
    copy_specs(wd, ["AwaitCache.tla", "AwaitCacheMC.tla"])
    cfg = os.path.join(wd, "mc.cfg")
    const = {"Hash": '{"h1","h2","h3"}', "Addr": '{"A","B"}', "Iss": "<- MCIss", "Rcv": "<- MCRcv",
             "Slots": "{1,2}" if tier == "quick" else "{1,2,3}", "MaxOps": "4" if tier == "quick" else "5", "ExpiryOn": "FALSE"}
    const.update(CODE_MODEL)
    write_cfg(cfg, "Spec", const, ["TypeOK", "C17_ListsExact"], ["C17_OnlyReceiverRemoves"], view="View")
    p = subprocess.run(["java", "-XX:+UseParallelGC", "-cp", TLC_CP, "tlc2.TLC", "-workers", str(max(2, NCPU // 2)), "-metadir",
                        os.path.join(wd, "meta"), "-config", cfg, "AwaitCacheMC.tla"], cwd=wd, capture_output=True, text=True,
                       timeout=3000)
    out = p.stdout + p.stderr
    fail = tlc_failed(out, p.returncode)
    if fail:
        raise Inconclusive("AwaitCacheMC failed: " + fail)
    v = tlc_violation(out)
    if v:
        raise Inconclusive("the model of the repaired cache violates %s: a defect of the specification" % v)
    return tlc_stats(out), const


def check(prop, tier):
    t0 = time.time()
    wd = rundir("%s-%s" % (prop, tier))
    drivebin = build_harness(into=wd)
    mc, mcconst = run_mc(wd, tier)
    log("[mc] AwaitCache %s" % mc)
    tf = os.path.join(wd, "all.ndjson")
    p = subprocess.run([drivebin, "cache", tf, str(seed()), tier], capture_output=True, text=True, timeout=1800)
    if p.returncode != 0:
        raise Inconclusive("cache driver failed: " + p.stderr[-400:])
    groups, cur = {}, None
    for l in open(tf):
        e = json.loads(l)
        if e["a"] == "Reset":
            cur = json.dumps([e["hashes"], e["addrs"], e["iss"], e["rcv"]], sort_keys=True)
        groups.setdefault(cur, []).append(l)
    violations, nevents, ncalls, nq = [], 0, 0, 0
    samples = []
    jobs = []
    for i, (k, lines) in enumerate(groups.items()):
        d = os.path.join(wd, "g%d" % i)
        os.makedirs(d)
        copy_specs(d, ["AwaitCache.tla", "AwaitCacheTrace.tla"])
        open(os.path.join(d, "trace.ndjson"), "w").writelines(lines)
        const = {"Hash": "<- THash", "Addr": "<- TAddr", "Iss": "<- TIss", "Rcv": "<- TRcv", "Slots": "{1}", "MaxOps": "0", "ExpiryOn": "FALSE",
                 "TraceFile": '"trace.ndjson"'}
        const.update(CODE_MODEL)
        write_cfg(os.path.join(d, "t.cfg"), "TSpec", const, ["C17_ListsExact", "C17_EntriesAsExpected", "C17_CallsConform"],
                  postcondition="Accepted")
        fo = open(os.path.join(d, "tlc.out"), "w")
        jobs.append((d, lines, subprocess.Popen(["java", "-Xss32m", "-Xmx3g", "-cp", TLC_CP, "tlc2.TLC", "-workers", "1", "-metadir",
                                                  os.path.join(d, "meta"), "-config", "t.cfg", "AwaitCacheTrace.tla"], cwd=d,
                                                 stdout=fo, stderr=subprocess.STDOUT)))
    for d, lines, pr in jobs:
        pr.wait(timeout=1800)
        out = open(os.path.join(d, "tlc.out")).read()
        fail = tlc_failed(out, pr.returncode)
        if fail:
            raise Inconclusive("cache trace validation failed in %s: %s" % (d, fail))
        v = tlc_violation(out)
        evs = [json.loads(x) for x in lines]
        if not samples:
            samples = evs[1:3]
        if v:
            ps = re.findall(r"/\\ pos = (\d+)", out)
            pos = int(ps[-1]) - 1
            bad = evs[pos - 1]
            for key in ("entry", "expect"):
                if key in bad and len(bad[key]) > 40:
                    bad[key] = bad[key][:40] + ["..."]
            violations.append(dict(what=v, event=bad, config=evs[0] if len(evs[0]["hashes"]) < 20 else "large"))
        nevents += len(evs)
        ncalls += sum(1 for e in evs if e["a"] == "Call")
        nq += sum(1 for e in evs if e["a"] == "Quiesce")
    wall = time.time() - t0
    cov = {"states": mc["distinct"], "transitions": mc["generated"], "traces_validated_against_impl": len(groups),
           "samples": samples, "sequential_calls_validated": ncalls, "quiescent_states_after_concurrency": nq,
           "events_validated": nevents, "mc_config": mcconst, "code_model": CODE_MODEL,
           "explanation": "MC: every interleaving of the bigcache calls of up to %s concurrent save/remove/read operations; "
                          "real code: sequential sequences judged call by call, every two-call interleaving forced at the list gate, "
                          "free-running goroutines on shared addresses, final states judged by TLC" % mcconst["Slots"]}
    write_evidence(prop, tier, "model_checking", cov, wall, len(violations),
                   ["VerifPeek reads the cache without changing it", "bigcache single calls are atomic", "TLC"])
    if violations:
        for i, v in enumerate(violations):
            path = save_replay(prop, "%s-%d" % (tier, i), v)
            print("VIOLATION property=%s replay=%s" % (prop, path), flush=True)
            log("  %s: %s" % (v["what"], json.dumps(v["event"])[:300]))
        return 1
    log("[ok] %s %s: %d calls, %d quiescent states, %.0fs" % (prop, tier, ncalls, nq, wall))
    return 0


def replay(prop, path):
    return check(prop, "quick")
