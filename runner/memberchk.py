"""Discovery protocol (Membership.tla): bounded model checking, behaviours on real gossipers behind loopback gRPC servers,
TLC trace validation.  Not one of the listed properties on its own: `./check M01 <tier>` runs it, and the C15 check uses
its adversarial-request events (a refused Announce / Discover leaves the peer table unchanged)."""
import json
import os
import random
import re
import subprocess
import time

from common import (Inconclusive, build_harness, copy_specs, log, rundir, seed, tlc, tlc_failed, tlc_stats, tlc_violation,
                    write_cfg)

NODES = ["g", "a", "b", "c"]
CONST = {"Node": '{"g", "a", "b", "c"}', "Genesis": '"g"', "Adv": '"adv"'}


def run_mc(wd, tier):
    """The design: invariants that hold (no failures, with and without the adversary), and the two that TLC refutes."""
    copy_specs(wd, ["Membership.tla"])
    res = {}
    runs = [("plain", "Spec", "0", ["TypeOK", "M1_OnlySelfSignedUrls", "M2_NoSelf", "M3_CliqueWhenDone"], None),
            ("adversary", "Spec", "1" if tier == "quick" else "2", ["TypeOK", "M1_OnlySelfSignedUrls", "M3_CliqueWhenDone"], None),
            ("selflisting", "Spec", "1", ["M2_NoSelf"], "M2_NoSelf"),
            ("failures", "SpecF", "0", ["M3_CliqueWhenDone"], "M3_CliqueWhenDone")]
    for name, spec, maxadv, invs, expect in runs:
        cfg = os.path.join(wd, "mc_%s.cfg" % name)
        const = dict(CONST, MaxAdv=maxadv)
        if name == "adversary":
            const["Node"] = '{"g", "a", "b"}'     # the adversary's choices multiply the state space: three nodes
        write_cfg(cfg, spec, const, invs)
        rc, out = tlc(wd, "Membership.tla", cfg, workers=8, timeout=1200)
        open(os.path.join(wd, "mc_%s.out" % name), "w").write(out)
        v = tlc_violation(out)
        if expect:
            if v != expect:
                raise Inconclusive("Membership.tla: TLC was expected to refute %s under %s (documented observation), got %s" % (expect, spec, v))
        else:
            fail = tlc_failed(out, rc)
            if fail or v:
                raise Inconclusive("Membership.tla: bounded model run %s failed: %s" % (name, fail or v))
        res[name] = tlc_stats(out)
    return res


def behaviours(rng, n):
    out = []
    others = [x for x in NODES if x != "g"]
    # directed: sequential joins in every order; a node down while another joins; replays and forgeries
    import itertools
    for perm in itertools.permutations(others):
        out.append([{"op": "join", "n": x} for x in perm])
    out.append([{"op": "join", "n": "a"}, {"op": "down", "n": "a"}, {"op": "join", "n": "b"}, {"op": "up", "n": "a"}, {"op": "join", "n": "c"},
                {"op": "join", "n": "a"}])
    out.append([{"op": "down", "n": "g"}, {"op": "join", "n": "a"}, {"op": "up", "n": "g"}, {"op": "join", "n": "a"}, {"op": "join", "n": "b"}])
    adv = []
    for kind in ("announce", "discover"):
        for addr, url, by in (("adv", "a", "adv"), ("a", "c", "adv"), ("a", "a", "a"), ("b", "b", "b"), ("b", "a", "adv"), ("adv", "g", "adv"),
                              ("g", "b", "adv"), ("c", "c", "a")):
            adv.append({"op": kind, "n": "b" if kind == "announce" else "g", "addr": addr, "url": url, "by": by})
    out.append([{"op": "join", "n": "a"}, {"op": "join", "n": "b"}] + adv + [{"op": "join", "n": "c"}])
    out.append(adv + [{"op": "join", "n": "a"}, {"op": "join", "n": "b"}, {"op": "join", "n": "c"}] + adv)
    # random
    for _ in range(n):
        ops = []
        for _ in range(rng.randint(4, 14)):
            r = rng.random()
            if r < 0.45:
                ops.append({"op": "join", "n": rng.choice(others)})
            elif r < 0.6:
                ops.append({"op": rng.choice(["down", "up"]), "n": rng.choice(NODES)})
            else:
                addr = rng.choice(NODES + ["adv"])
                by = addr if rng.random() < 0.5 else rng.choice(NODES + ["adv"])
                # the adversary holds its own key only: a record signed by an honest node names that node's own URL (a replay)
                url = addr if (by == addr and addr != "adv") else rng.choice(NODES)
                ops.append({"op": rng.choice(["announce", "discover"]), "n": rng.choice(NODES), "addr": addr, "url": url, "by": by})
        out.append(ops)
    return [{"id": "M-%d" % i, "nodes": NODES, "genesis": "g", "ops": ops} for i, ops in enumerate(out)]


def drive_validate(wd, drivebin, behs):
    os.makedirs(wd, exist_ok=True)
    with open(os.path.join(wd, "beh.ndjson"), "w") as f:
        for b in behs:
            f.write(json.dumps(b) + "\n")
    p = subprocess.run([drivebin, "member", "beh.ndjson", "trace.ndjson"], cwd=wd, stdout=subprocess.PIPE,
                       stderr=open(os.path.join(wd, "stderr.log"), "w"), timeout=1800)
    if p.returncode != 0:
        raise Inconclusive("membership driver failed (rc=%s), see %s/stderr.log" % (p.returncode, wd))
    copy_specs(wd, ["Membership.tla", "MembershipTrace.tla"])
    write_cfg(os.path.join(wd, "t.cfg"), "TSpec", dict(CONST, MaxAdv="0", TraceFile='"trace.ndjson"'),
              ["Conforms", "T_OnlySelfSignedUrls"], postcondition="Accepted")
    rc, out = tlc(wd, "MembershipTrace.tla", os.path.join(wd, "t.cfg"), workers=1, timeout=1200)
    open(os.path.join(wd, "tlc.out"), "w").write(out)
    lines = open(os.path.join(wd, "trace.ndjson")).read().splitlines()
    v = tlc_violation(out)
    fail = tlc_failed(out, rc)
    if fail and not v:
        raise Inconclusive("membership trace validation failed: %s (see %s/tlc.out)" % (fail, wd))
    violations = []
    if v or ("Postcondition" in out and "is false" in out):
        ps = re.findall(r"/\\ pos = (\d+)", out)
        pos = max(1, int(ps[-1]) - 1) if ps else 1
        bidx = -1
        for l in lines[:pos]:
            if l.startswith('{"a":"Reset"'):
                bidx += 1
        violations.append(dict(what=v or "trace not explained", event=json.loads(lines[pos - 1]), behaviour=behs[max(0, bidx)]))
    acts = {}
    for l in lines:
        m = re.match(r'\{"a":"([A-Za-z]+)"', l)
        if m:
            acts[m.group(1)] = acts.get(m.group(1), 0) + 1
    return violations, len(lines), acts


def stress(tier, wd, drivebin):
    """Valid Discover and Announce requests from many keys at once against one real server. Returns (crashed, detail)."""
    os.makedirs(wd, exist_ok=True)
    p = subprocess.run([drivebin, "member-stress", "2" if tier == "quick" else "20"], cwd=wd, stdout=subprocess.PIPE,
                       stderr=subprocess.PIPE, text=True, timeout=600)
    if p.returncode == 0:
        return False, p.stdout.strip().splitlines()[-1] if p.stdout.strip() else ""
    err = p.stderr or ""
    if "fatal error" in err or "panic:" in err:
        first = [l for l in err.splitlines() if l.startswith(("fatal error", "panic:"))][:1]
        return True, (first[0] if first else "crash") + " (discovery requests overlapping on one node)"
    raise Inconclusive("membership stress driver failed (rc=%s): %s" % (p.returncode, err[-300:]))


def run(tier, wd, drivebin, nrandom=None):
    rng = random.Random(seed() * 31 + 7)
    behs = behaviours(rng, nrandom if nrandom is not None else (40 if tier == "quick" else 600))
    return drive_validate(wd, drivebin, behs) + (len(behs),)


def check(prop, tier):
    t0 = time.time()
    wd = rundir("%s-%s" % (prop, tier))
    drivebin = build_harness(into=wd)
    mc = run_mc(wd, tier)
    log("[mc] Membership %s" % {k: v for k, v in mc.items()})
    violations, nev, acts, nb = run(tier, os.path.join(wd, "tv"), drivebin)
    crashed, detail = stress(tier, os.path.join(wd, "stress"), drivebin)
    if crashed:
        violations.append(dict(what="the node process died", event={"a": "Stress", "detail": detail}, behaviour={}))
    else:
        log("[stress] " + detail)
    if violations:
        for v in violations:
            log("  discovery protocol: %s at %s" % (v["what"], json.dumps(v["event"])[:300]))
        log("[fail] %s %s: the recorded run is not a behaviour of Membership.tla" % (prop, tier))
        return 1
    log("[ok] %s %s: %d behaviours, %d events %s, %.0fs" % (prop, tier, nb, nev, acts, time.time() - t0))
    return 0


def replay(prop, path):
    return check(prop, "quick")
