"""C11 / C12: gossip about gossip (GossipNet.tla + virtual network of real gossipers)."""
import json
import os
import random
import re
import subprocess
import time

from common import (Inconclusive, NCPU, TLC_CP, build_harness, copy_specs, log, rundir, save_replay, seed,
                    tla_set, tlc, tlc_failed, tlc_stats, tlc_violation, write_cfg, write_evidence)

PROFILES = {
    # name: (items, Kind, Parent, Origin operator names in GossipNetMC, python item list)
    "one": ('{"v1"}', "K1", "P1", "O1a", [dict(id="v1", kind="vrx", parent="none", origin="n1")]),
    "two": ('{"v1","t1"}', "K2", "P2", "O2b", [dict(id="v1", kind="vrx", parent="none", origin="n1"),
                                               dict(id="t1", kind="trx", parent="none", origin="n2")]),
    "two4": ('{"v1","t1"}', "K2", "P2", "O2c", [dict(id="v1", kind="vrx", parent="none", origin="n1"),
                                                dict(id="t1", kind="trx", parent="none", origin="n4")]),
    "chain": ('{"v1","v2"}', "KC", "PC", "OCa", [dict(id="v1", kind="vrx", parent="none", origin="n1"),
                                                 dict(id="v2", kind="vrx", parent="v1", origin="n1")]),
    # trace validation only: a series of vertices accepted at n1 while its gossip loops are stalled
    "burst": (None, None, None, None, [dict(id="b%02d" % i, kind="vrx", parent="none" if i == 1 else "b%02d" % (i - 1), origin="n1")
                                       for i in range(1, 25)]),
}

NODES = {2: ["n1", "n2"], 3: ["n1", "n2", "n3"], 4: ["n1", "n2", "n3", "n4"]}

# (nodes, bad, profile, MaxDup, MaxForge, reach invariant)
MC_C11 = {"quick": [(2, [], "one", 1, 0, "C11_AllReached"), (3, [], "one", 1, 0, "C11_AllReached"),
                    (4, [], "one", 1, 0, "C11_AllReached"), (3, [], "two", 1, 0, "C11_AllReached"),
                    (3, [], "chain", 0, 0, "C11_AllReachedModuloF13"),
                    # the duplicate-suppression window of a node may pass once
                    (3, [], "two", 1, 0, "C11_AllReached", 1)],
          "thorough": [(2, [], "one", 2, 0, "C11_AllReached"), (3, [], "one", 2, 0, "C11_AllReached"),
                       (4, [], "one", 2, 0, "C11_AllReached"), (3, [], "two", 1, 0, "C11_AllReached"),
                       (4, [], "two", 0, 0, "C11_AllReached"), (3, [], "chain", 1, 0, "C11_AllReachedModuloF13"),
                       (4, [], "chain", 0, 0, "C11_AllReachedModuloF13"),
                       (3, [], "two", 2, 0, "C11_AllReached", 2), (4, [], "one", 1, 0, "C11_AllReached", 1)]}
MC_C12 = {"quick": [(3, ["n3"], "one", 0, 2, "C12_NoSuppression"), (3, ["n2"], "one", 0, 2, "C12_NoSuppression"),
                    (4, ["n2"], "one", 0, 1, "C12_NoSuppression"), (3, ["n3"], "two", 0, 1, "C12_NoSuppression")],
          "thorough": [(3, ["n3"], "one", 1, 3, "C12_NoSuppression"), (3, ["n2"], "one", 1, 3, "C12_NoSuppression"),
                       (4, ["n2"], "one", 0, 2, "C12_NoSuppression"), (4, ["n4"], "one", 0, 2, "C12_NoSuppression"),
                       (3, ["n3"], "two", 0, 2, "C12_NoSuppression"), (3, ["n2"], "two", 0, 2, "C12_NoSuppression")]}

SAFETY = ["TypeOK", "C11_AdmittedOnce", "C11_ForwardOnce", "C11_NeverToListed"]


def constants(n, bad, prof, dup, forge, extra=None):
    items, k, p, o, _ = PROFILES[prof]
    c = {"Node": tla_set(NODES[n]), "Bad": tla_set(bad), "Item": items, "Kind": "<- " + k, "Parent": "<- " + p,
         "Origin": "<- " + o, "MaxDup": str(dup), "MaxForge": str(forge), "MaxExpire": "0", "AllowPoison": "FALSE"}
    c.update(extra or {})
    return c


def run_mc(wd, runs):
    copy_specs(wd, ["GossipNet.tla", "GossipNetMC.tla"])
    jobs = []
    for idx, run in enumerate(runs):
        n, bad, prof, dup, forge, reach = run[:6]
        expire = run[6] if len(run) > 6 else 0
        name = "mc%d" % idx
        # with an adversary the origin of a transaction can be made to forward it once more (its own flash
        # memory is not set when it originates); the forward-once claim of C11 is about honest networks
        safety = SAFETY if not bad else ["TypeOK", "C11_AdmittedOnce", "C11_NeverToListed"]
        write_cfg(os.path.join(wd, name + ".cfg"), "Spec", constants(n, bad, prof, dup, forge, {"MaxExpire": str(expire)}), safety + [reach],
                  ["C11_ForwardOnlyAfterAccept", "C11_Terminates"])
        fo = open(os.path.join(wd, name + ".out"), "w")
        jobs.append((name, (n, bad, prof), subprocess.Popen(
            ["java", "-XX:+UseParallelGC", "-Xmx4g", "-cp", TLC_CP, "tlc2.TLC", "-workers", "2", "-metadir",
             os.path.join(wd, "meta-" + name), "-config", name + ".cfg", "GossipNetMC.tla"], cwd=wd, stdout=fo, stderr=subprocess.STDOUT)))
    tot = {"generated": 0, "distinct": 0}
    per = {}
    for name, key, p in jobs:
        try:
            p.wait(timeout=3000)
        except subprocess.TimeoutExpired:
            p.kill()
            raise Inconclusive("GossipNet model run %s timed out" % name)
        out = open(os.path.join(wd, name + ".out")).read()
        fail = tlc_failed(out, p.returncode)
        if fail:
            raise Inconclusive("GossipNet model run %s failed: %s" % (name, fail))
        v = tlc_violation(out)
        if v:
            raise Inconclusive("the GossipNet model violates %s in run %s %s: a defect of the specification" % (v, name, key))
        st = tlc_stats(out)
        per["%d nodes bad=%s %s" % (key[0], ",".join(key[1]) or "-", key[2])] = st["distinct"]
        tot["generated"] += st["generated"]
        tot["distinct"] += st["distinct"]
    return tot, per


def simulate(wd, n, bad, prof, dup, forge, num, depth, sd):
    copy_specs(wd, ["GossipNet.tla", "GossipNetMC.tla", "GossipNetGen.tla"])
    name = "gen_%d_%s_%s_%d" % (n, "".join(bad) or "h", prof, sd)
    write_cfg(os.path.join(wd, name + ".cfg"), "GenSpec", constants(n, bad, prof, dup, forge, {"GenDepth": str(depth), "MaxExpire": "0" if bad else "1"}),
              invariants=["GenEmit"])
    rc, out = tlc(wd, "GossipNetGen.tla", os.path.join(wd, name + ".cfg"), workers=1, timeout=600,
                  simulate="num=%d" % num, extra=["-depth", str(depth + 2), "-seed", str(sd)])
    fail = tlc_failed(out, rc)
    if fail:
        open(os.path.join(wd, name + ".out"), "w").write(out)
        raise Inconclusive("gossip behaviour generation failed: %s" % fail)
    res, seen = [], set()
    for m in re.finditer(r'<<"BEHAVIOUR", "(.*)">>', out):
        js = m.group(1).encode().decode("unicode_escape")
        if js in seen:
            continue
        seen.add(js)
        b = json.loads(js)
        res.append(dict(nodes=NODES[n], peers=b["peers"], bad=bad, items=PROFILES[prof][4], ops=b["ops"], drain=True,
                        profile=prof))
    return res


def directed(prop):
    """Line and star networks where a child overtakes its parent (witness of F13) and basic relays."""
    out = []
    line = {"n1": ["n2"], "n2": ["n1", "n3"], "n3": ["n2"]}
    tri = {"n1": ["n2", "n3"], "n2": ["n1", "n3"], "n3": ["n1", "n2"]}
    chain = PROFILES["chain"][4]
    one = PROFILES["one"][4]
    if prop == "C11":
        out.append(dict(nodes=NODES[3], peers=line, bad=[], items=chain, drain=True, profile="chain", origin_="witness:F13",
                        ops=[{"op": "originate", "i": "v1"}, {"op": "originate", "i": "v2"},
                             {"op": "receive", "f": "n1", "t": "n2", "i": "v2"}, {"op": "pull", "n": "n2", "c": "v2"},
                             {"op": "retry", "n": "n2", "c": "v2"}, {"op": "receive", "f": "n1", "t": "n2", "i": "v1"}]))
        out.append(dict(nodes=NODES[3], peers=line, bad=[], items=chain, drain=True, profile="chain",
                        ops=[{"op": "originate", "i": "v1"}, {"op": "receive", "f": "n1", "t": "n2", "i": "v1"},
                             {"op": "originate", "i": "v2"}]))
        out.append(dict(nodes=NODES[3], peers=tri, bad=[], items=one, drain=True, profile="one",
                        ops=[{"op": "originate", "i": "v1"}, {"op": "receive", "f": "n1", "t": "n2", "i": "v1"},
                             {"op": "receive", "f": "n1", "t": "n2", "i": "v1"}]))
        # more vertices than the pipe between ledger and gossip loop holds, accepted while the loop is stalled
        burst = PROFILES["burst"][4]
        out.append(dict(nodes=NODES[2], peers={"n1": ["n2"], "n2": ["n1"]}, bad=[], items=burst, drain=True, profile="burst",
                        ops=[{"op": "burst", "n": "n1", "is": [it["id"] for it in burst]}]))
    else:
        # an honest signature lifted from ANOTHER item: n1 signs v1; the adversary n3 replays that entry in the list of
        # t1 (originated at n4) towards n2, whose only honest way to n1 ... is n2 itself: n1 must still get t1
        net4 = {"n1": ["n2", "n3"], "n2": ["n1", "n3", "n4"], "n3": ["n1", "n2", "n4"], "n4": ["n2", "n3"]}
        two4 = PROFILES["two4"][4]
        for menu in (3, 5, 6):
            out.append(dict(nodes=NODES[4], peers=net4, bad=["n3"], items=two4, drain=True, profile="two4",
                            ops=[{"op": "originate", "i": "v1"}, {"op": "receive", "f": "n1", "t": "n2", "i": "v1"},
                                 {"op": "receive", "f": "n1", "t": "n3", "i": "v1"}, {"op": "receive", "f": "n2", "t": "n3", "i": "v1"},
                                 {"op": "originate", "i": "t1"}, {"op": "receive", "f": "n4", "t": "n3", "i": "t1"},
                                 {"op": "forge", "b": "n3", "t": "n2", "i": "t1", "v": "n1", "menu": menu},
                                 {"op": "receive", "f": "n3", "t": "n2", "i": "t1"}]))
        for menu in range(1, 8):
            out.append(dict(nodes=NODES[3], peers=tri, bad=["n3"], items=one, drain=True, profile="one",
                            ops=[{"op": "originate", "i": "v1"}, {"op": "receive", "f": "n1", "t": "n3", "i": "v1"},
                                 {"op": "forge", "b": "n3", "t": "n2", "i": "v1", "v": "n2", "menu": menu},
                                 {"op": "receive", "f": "n3", "t": "n2", "i": "v1"}]))
            out.append(dict(nodes=NODES[3], peers=line, bad=["n2"], items=one, drain=True, profile="one",
                            ops=[{"op": "originate", "i": "v1"}, {"op": "receive", "f": "n1", "t": "n2", "i": "v1"},
                                 {"op": "forge", "b": "n2", "t": "n3", "i": "v1", "v": "n3", "menu": menu}]))
    return out


def drive_and_validate(wd, drivebin, behaviours, invariants, props):
    groups = {}
    for b in behaviours:
        k = (len(b["nodes"]), ",".join(b["bad"]), b["profile"])
        groups.setdefault(k, []).append(b)
    chunks = {}
    ci = 0
    for k, bs in groups.items():
        parts = max(1, min(len(bs) // 30, NCPU))
        for j in range(parts):
            c = bs[j::parts]
            if c:
                chunks["c%d" % ci] = c
                ci += 1
    # a network of four real nodes holds twelve in-memory badger stores: at most eight driver processes at a time
    todo = []
    for key, bs in chunks.items():
        d = os.path.join(wd, key)
        os.makedirs(d, exist_ok=True)
        with open(os.path.join(d, "beh.ndjson"), "w") as f:
            for b in bs:
                f.write(json.dumps(b) + "\n")
        todo.append((key, d))
    running = []
    while todo or running:
        while todo and len(running) < max(2, NCPU // 2):
            key, d = todo.pop(0)
            running.append((key, d, time.time(), subprocess.Popen(
                [drivebin, "gossip", "beh.ndjson", "trace.ndjson"], cwd=d, stdout=subprocess.DEVNULL,
                stderr=open(os.path.join(d, "stderr.log"), "w"),
                env=dict(os.environ, GOMEMLIMIT=os.environ.get("GOMEMLIMIT", "1500MiB"), GOTRACEBACK="all"))))
        still = []
        for key, d, t0, p in running:
            if p.poll() is None:
                if time.time() - t0 > 1800:
                    p.kill()
                    raise Inconclusive("gossip driver timed out on " + key)
                still.append((key, d, t0, p))
            elif p.returncode != 0:
                raise Inconclusive("gossip driver failed on %s (rc=%s)" % (key, p.returncode))
        running = still
        if running:
            time.sleep(0.1)
    pending = []
    for key, bs in chunks.items():
        d = os.path.join(wd, key)
        copy_specs(d, ["GossipNet.tla", "GossipNetTrace.tla"])
        const = {"Node": "<- TNode", "Bad": "<- TBad", "Item": "<- TItem", "Kind": "<- TKind", "Parent": "<- TParent",
                 "Origin": "<- TOrigin", "MaxDup": "1000", "MaxForge": "1000", "MaxExpire": "1000", "AllowPoison": "TRUE", "TraceFile": '"trace.ndjson"'}
        write_cfg(os.path.join(d, "t.cfg"), "TSpec", const, invariants + ["Conforms"], props, postcondition="Accepted")
        pending.append((key, d))
    jobs, live = [], []
    while pending or live:
        while pending and len(live) < max(2, NCPU - 2):
            key, d = pending.pop(0)
            fo = open(os.path.join(d, "tlc.out"), "w")
            p = subprocess.Popen(["java", "-Xss32m", "-Xmx2g", "-cp", TLC_CP, "tlc2.TLC", "-workers", "1", "-metadir",
                                  os.path.join(d, "meta"), "-config", "t.cfg", "GossipNetTrace.tla"], cwd=d,
                                 stdout=fo, stderr=subprocess.STDOUT)
            jobs.append((key, d, p))
            live.append(p)
        live = [p for p in live if p.poll() is None]
        if live:
            time.sleep(0.1)
    violations, nev, acts = [], 0, {}
    for key, d, p in jobs:
        p.wait(timeout=1800)
        out = open(os.path.join(d, "tlc.out")).read()
        fail = tlc_failed(out, p.returncode)
        if fail:
            raise Inconclusive("gossip trace validation failed in %s: %s" % (d, fail))
        lines = open(os.path.join(d, "trace.ndjson")).read().splitlines()
        for l in lines:
            m = re.match(r'\{"a":"([A-Za-z]+)"', l)
            if m:
                acts[m.group(1)] = acts.get(m.group(1), 0) + 1
        v = tlc_violation(out)
        if v or "Postcondition" in out and "is false" in out:
            ps = re.findall(r"/\\ pos = (\d+)", out)
            pos = max(1, int(ps[-1]) - 1) if ps else 1
            # find the behaviour
            bidx = -1
            for i, l in enumerate(lines[:pos]):
                if l.startswith('{"a":"Reset"'):
                    bidx += 1
            ob = re.findall(r'a \|-> "([A-Za-z]+)"', out)
            violations.append(dict(what=v or "trace not explained", event=json.loads(lines[pos - 1]), note=ob[-1] if ob else "",
                                   behaviour=chunks[key][max(0, bidx)]))
            nev += pos
        else:
            nev += len(lines)
    return violations, nev, acts, len(behaviours)


def check(prop, tier):
    t0 = time.time()
    rng = random.Random(seed())
    wd = rundir("%s-%s" % (prop, tier))
    drivebin = build_harness(into=wd)
    runs = (MC_C11 if prop == "C11" else MC_C12)[tier]
    mc, per = run_mc(wd, runs)
    log("[mc] GossipNet %s" % mc)
    num = 120 if tier == "quick" else 400
    behaviours = []
    sd = rng.randint(1, 10 ** 6)
    for run in runs:
        n, bad, prof, dup, forge, reach = run[:6]
        depth = 14 if prof == "one" else 22
        behaviours += simulate(wd, n, bad, prof, max(dup, 1) if not bad else dup, forge, num, depth, sd + n)
    behaviours += directed(prop)
    for i, b in enumerate(behaviours):
        b["id"] = "%s-%d" % (prop, i)
    log("[gen] %d behaviours" % len(behaviours))
    if prop == "C11":
        inv = SAFETY[1:] + ["C11_AllReachedAtEndModuloF13"]
    else:
        inv = ["C11_NeverToListed", "C11_AdmittedOnce", "C11_AllReachedAtEnd"]
    violations, nev, acts, nb = drive_and_validate(wd, drivebin, behaviours, inv, ["C11_ForwardOnlyAfterAccept"])
    if prop == "C11":
        # known finding F13: replay the witness against the strict claim
        w = [b for b in directed("C11") if b.get("origin_") == "witness:F13"]
        for b in w:
            b["id"] = "C11-witness-F13"
        kv, _, _, _ = drive_and_validate(os.path.join(wd, "kf"), drivebin, w, ["C11_AllReachedAtEnd"], [])
        if any(v["what"] == "C11_AllReachedAtEnd" for v in kv):
            print("KNOWN-FINDING: property=C11 a vertex that reaches a relay before its parent is admitted there through the "
                  "parent fetch and the orphan retry, which do not forward: nodes behind the relay never receive either vertex "
                  "(F13; witness replayed on this tree: line n1-n2-n3, v2 delivered to n2 before v1)", flush=True)
    if prop == "C12":
        # known finding F14 (a forged ITEM, not a forged list): replay the witness against the strict claim
        tri = {"n1": ["n2", "n3"], "n2": ["n1", "n3"], "n3": ["n1", "n2"]}
        wb = [dict(id="C12-witness-F14", nodes=NODES[3], peers=tri, bad=["n3"], items=PROFILES["one"][4], drain=True, profile="one",
                   ops=[{"op": "originate", "i": "v1"}, {"op": "receive", "f": "n1", "t": "n3", "i": "v1"},
                        {"op": "poison", "b": "n3", "t": "n2", "i": "v1"}])]
        kv, _, _, _ = drive_and_validate(os.path.join(wd, "kf"), drivebin, wb, ["C11_AllReachedAtEnd"], [])
        if any(v["what"] == "C11_AllReachedAtEnd" for v in kv):
            print("KNOWN-FINDING: property=C12 a malicious relay that knows a vertex's hash announces it with corrupted content; the "
                  "recent-hash memory is written before the content is verified, so the honest copy that arrives later is dropped "
                  "as a repeat and the node never admits the vertex (F14: a forged item, not a forged gossiper list; witness replayed "
                  "on this tree: triangle, n3 adversarial, n2 poisoned before n1's message arrives)", flush=True)
    wall = time.time() - t0
    cov = {"states": mc["distinct"], "transitions": mc["generated"], "traces_validated_against_impl": nb - len(violations),
           "samples": [{"peers": b["peers"], "bad": b["bad"], "ops": b["ops"][:10]} for b in behaviours[:2]],
           "mc_runs": per, "events_validated": nev, "events_by_action": acts,
           "explanation": "MC: every connected symmetric peer graph on the given nodes is an initial state, all delivery orders "
                          "with duplicates (and forged lists for C12); real code: TLC-simulated delivery orders replayed on a "
                          "virtual network of real gossipers with real ledgers and caches, every delivery judged by TLC"}
    write_evidence(prop, tier, "model_checking", cov, wall, len(violations),
                   ["stub clients replace gRPC transport (messages are deep-copied at the boundary)",
                    "quiescence is detected from goroutine stacks", "flash window (20 s) does not expire within a run", "TLC"])
    if violations:
        for i, v in enumerate(violations):
            path = save_replay(prop, "%s-%d" % (tier, i), v)
            print("VIOLATION property=%s replay=%s" % (prop, path), flush=True)
            log("  %s %s: %s" % (v["what"], v["note"], json.dumps(v["event"])[:300]))
        return 1
    log("[ok] %s %s: %d behaviours, %d events, %.0fs" % (prop, tier, nb, nev, wall))
    return 0


def replay(prop, path):
    v = json.load(open(path))
    wd = rundir("%s-replay" % prop)
    drivebin = build_harness(into=wd)
    b = v["behaviour"]
    inv = SAFETY[1:] + ["C11_AllReachedAtEndModuloF13"] if prop == "C11" else ["C11_NeverToListed", "C11_AdmittedOnce", "C11_AllReachedAtEnd"]
    viol, _, _, _ = drive_and_validate(wd, drivebin, [b], inv, ["C11_ForwardOnlyAfterAccept"])
    if viol:
        print("VIOLATION property=%s replay=%s" % (prop, path), flush=True)
        return 1
    log("replay: behaviour accepted")
    return 0
