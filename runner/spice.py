"""C05: spice arithmetic is exact, atomic and accepts only canonical amounts.
   Spice.tla / SpiceMC (exhaustive equivalence at scaled constants), SpiceTrace (real functions at the
   real constants), and the ledger side (Ledger.tla: non canonical amounts offered at every ingress)."""
import glob
import json
import os
import subprocess
import time

from common import (Inconclusive, NCPU, TLC_CP, build_harness, copy_specs, log, rundir, save_replay, seed,
                    tlc_failed, tlc_stats, tlc_violation, write_cfg, write_evidence)
import ledger

CODE_MODEL = {"CarryCmp": '"le"'}


def run_mc(wd, tier):
    copy_specs(wd, ["Spice.tla", "SpiceMC.tla"])
    tot = {"generated": 0, "distinct": 0}
    runs = [("3", "8"), ("4", "16")] if tier == "quick" else [("3", "8"), ("4", "16"), ("5", "16"), ("7", "16")]
    for base, u in runs:
        cfg = os.path.join(wd, "spice_%s_%s.cfg" % (base, u))
        const = {"Base": base, "U": u}
        const.update(CODE_MODEL)
        write_cfg(cfg, "Spec", const, ["SupplyExact", "TransferExact", "TransferConserves"])
        p = subprocess.run(["java", "-XX:+UseParallelGC", "-cp", TLC_CP, "tlc2.TLC", "-workers", str(max(2, NCPU // 2)), "-metadir",
                            os.path.join(wd, "meta"), "-config", cfg, "SpiceMC.tla"], cwd=wd, capture_output=True, text=True,
                           timeout=1800)
        out = p.stdout + p.stderr
        fail = tlc_failed(out, p.returncode)
        if fail:
            raise Inconclusive("SpiceMC failed: " + fail)
        v = tlc_violation(out)
        if v:
            raise Inconclusive("the transcription of the repaired algorithms disagrees with the reference semantics (%s): "
                               "a defect of the specification" % v)
        st = tlc_stats(out)
        tot["generated"] += st["generated"]
        tot["distinct"] += st["distinct"]
    return tot


def check(prop, tier):
    t0 = time.time()
    wd = rundir("%s-%s" % (prop, tier))
    drivebin = build_harness(into=wd)
    mc = run_mc(wd, tier)
    log("[mc] Spice %s" % mc)
    # real functions at the real constants
    d = os.path.join(wd, "sp")
    os.makedirs(d)
    p = subprocess.run([drivebin, "spice", os.path.join(d, "sp"), str(seed()), tier], capture_output=True, text=True, timeout=1800)
    if p.returncode != 0:
        raise Inconclusive("spice driver failed: " + p.stderr[-500:])
    chunks = sorted(glob.glob(os.path.join(d, "sp_*.ndjson")))
    jobs = []
    for i, c in enumerate(chunks):
        cd = os.path.join(d, "c%d" % i)
        os.makedirs(cd)
        copy_specs(cd, ["SpiceTrace.tla"])
        os.replace(c, os.path.join(cd, "trace.ndjson"))
        cfg = os.path.join(cd, "t.cfg")
        write_cfg(cfg, "Spec", {"TraceFile": '"trace.ndjson"'}, ["C05_ExactAtomicCanonical"], postcondition="Accepted")
        jobs.append(cd)
    running, results = [], {}
    pending = list(jobs)
    while pending or running:
        while pending and len(running) < NCPU:
            cd = pending.pop(0)
            fo = open(os.path.join(cd, "tlc.out"), "w")
            running.append((cd, subprocess.Popen(["java", "-Xmx2g", "-cp", TLC_CP, "tlc2.TLC", "-workers", "1", "-metadir",
                                                  os.path.join(cd, "meta"), "-config", "t.cfg", "SpiceTrace.tla"], cwd=cd,
                                                 stdout=fo, stderr=subprocess.STDOUT)))
        still = []
        for cd, pr in running:
            if pr.poll() is None:
                still.append((cd, pr))
            else:
                results[cd] = (pr.returncode, open(os.path.join(cd, "tlc.out")).read())
        running = still
        time.sleep(0.1)
    violations, events = [], 0
    samples = []
    import re
    for cd in jobs:
        rc, out = results[cd]
        fail = tlc_failed(out, rc)
        if fail:
            raise Inconclusive("spice trace validation failed in %s: %s" % (cd, fail))
        lines = open(os.path.join(cd, "trace.ndjson")).read().splitlines()
        if not samples:
            samples = [json.loads(x) for x in lines[:2]]
        v = tlc_violation(out)
        if v:
            ps = re.findall(r"/\\ pos = (\d+)", out)
            pos = int(ps[-1]) - 1
            violations.append(dict(what=v, event=json.loads(lines[pos - 1]), part="arithmetic"))
            events += pos
        else:
            events += len(lines)
    # ledger side
    lcov, lviol = ledger.check(prop, tier, finish=False)
    for v in lviol:
        v["part"] = "ledger"
    violations += lviol
    wall = time.time() - t0
    cov = {"states": mc["distinct"] + lcov["states"], "transitions": mc["generated"] + lcov["transitions"],
           "traces_validated_against_impl": events + lcov["traces_validated_against_impl"],
           "samples": samples + lcov["samples"][:1], "arithmetic_events_validated": events, "exhaustive": True,
           "arithmetic_model": "SpiceMC: transcribed Go algorithms == reference semantics for ALL operand tuples at scaled constants",
           "ledger_part": {k: lcov[k] for k in ("events_by_action", "behaviours_by_origin", "traces_validated_against_impl")},
           "code_model": dict(CODE_MODEL, **ledger.CODE_MODEL),
           "explanation": "exhaustive at scaled constants (Base 3..7, 2^64 scaled to 8/16); at the real constants the boundary "
                          "product of the quantifier plus seeded random operands is executed on the real functions and every "
                          "result is judged by TLC on limb-encoded numbers; non canonical amounts are offered to real "
                          "ledgers through propose, gossip, retry and DAG loading"}
    write_evidence(prop, tier, "model_checking", cov, wall, len(violations),
                   ["TLC", "limb encoding in the driver (big.Int)", "ledger projection as for C01"])
    if violations:
        for i, v in enumerate(violations):
            path = save_replay(prop, "%s-%d" % (tier, i), v)
            print("VIOLATION property=%s replay=%s" % (prop, path), flush=True)
            log("  %s (%s): %s" % (v["what"], v["part"], json.dumps(v.get("event"))[:300]))
        return 1
    log("[ok] %s %s: %d arithmetic events, %d ledger behaviours, %.0fs" % (prop, tier, events, lcov["traces_validated_against_impl"], wall))
    return 0


def replay(prop, path):
    v = json.load(open(path))
    if v.get("part") == "ledger":
        return ledger.replay(prop, path)
    return check(prop, "quick")
