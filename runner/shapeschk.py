"""C15: no request can crash a node (RpcShapes.tla enumerates request shapes; shape driver; RpcShapesTrace)."""
import json
import os
import re
import subprocess
import time

from common import (Inconclusive, NCPU, TLC_CP, build_harness, copy_specs, log, rundir, save_replay, seed,
                    tlc, tlc_failed, tlc_stats, tlc_violation, write_cfg, write_evidence)


def enumerate_shapes(wd, width):
    copy_specs(wd, ["RpcShapes.tla"])
    write_cfg(os.path.join(wd, "enum.cfg"), "Spec", {"Width": str(width)}, ["Total", "Emit"])
    rc, out = tlc(wd, "RpcShapes.tla", os.path.join(wd, "enum.cfg"), workers=1, timeout=1800)
    fail = tlc_failed(out, rc)
    if fail or tlc_violation(out):
        raise Inconclusive("shape enumeration failed: %s" % (fail or tlc_violation(out)))
    shapes = []
    for m in re.finditer(r'<<"SHAPE", "(.*)">>', out):
        shapes.append(m.group(1).encode().decode("unicode_escape"))
    return tlc_stats(out), shapes


def check(prop, tier):
    t0 = time.time()
    wd = rundir("%s-%s" % (prop, tier))
    drivebin = build_harness(into=wd)
    st, shapes = enumerate_shapes(wd, 2 if tier == "quick" else 3)
    if tier == "quick":
        # the quick tier takes the complete single-field and SignedHash products and a seeded half of the pairs
        import random
        rng = random.Random(seed())
        keep = []
        for s in shapes:
            j = json.loads(s)
            base = {"exact", "valid", "present", "small", "one"}
            dev = sum(1 for v in j["shape"].values() if v not in base)
            if j["msg"] in ("SignedHash", "Address") or dev <= 1 or rng.random() < 0.5:
                keep.append(s)
        shapes = keep
    log("[gen] %d request shapes" % len(shapes))
    nchunks = NCPU
    procs = []
    for i in range(nchunks):
        part = shapes[i::nchunks]
        if not part:
            continue
        d = os.path.join(wd, "c%d" % i)
        os.makedirs(d)
        open(os.path.join(d, "shapes.ndjson"), "w").write("\n".join(part) + "\n")
        procs.append((d, len(part), subprocess.Popen([drivebin, "shapes", "shapes.ndjson", "trace.ndjson"], cwd=d,
                                                      stdout=subprocess.PIPE, stderr=subprocess.DEVNULL,
                                               env=dict(os.environ, GOMEMLIMIT=os.environ.get("GOMEMLIMIT", "1500MiB")))))
    for d, n, p in procs:
        try:
            p.communicate(timeout=3000)
        except subprocess.TimeoutExpired:
            p.kill()
            raise Inconclusive("shape driver timed out in " + d)
        got = sum(1 for _ in open(os.path.join(d, "trace.ndjson")))
        if got != n:
            raise Inconclusive("shape driver died in %s after %d of %d requests (rc=%s)" % (d, got, n, p.returncode))
    jobs = []
    invs = ["C15_NoCrash", "C15_RejectedLeavesStateUnchanged", "C15_UnacceptableIsRejected"]
    for d, n, _ in procs:
        copy_specs(d, ["RpcShapesTrace.tla"])
        write_cfg(os.path.join(d, "t.cfg"), "Spec", {"TraceFile": '"trace.ndjson"'}, invs, postcondition="Accepted")
    violations, outcomes, per_rpc = [], {}, {}
    for d, n, _ in procs:
        lines = open(os.path.join(d, "trace.ndjson")).read().splitlines()
        evs = [json.loads(l) for l in lines]
        for e in evs:
            outcomes[e["outcome"]] = outcomes.get(e["outcome"], 0) + 1
            per_rpc.setdefault(e["rpc"], {}).setdefault(e["outcome"], 0)
            per_rpc[e["rpc"]][e["outcome"]] += 1
        remaining = evs
        for _ in range(40):
            with open(os.path.join(d, "trace.ndjson"), "w") as f:
                for e in remaining:
                    f.write(json.dumps(e) + "\n")
            fo = open(os.path.join(d, "tlc.out"), "w")
            pr = subprocess.run(["java", "-Xmx2g", "-cp", TLC_CP, "tlc2.TLC", "-workers", "1", "-metadir", os.path.join(d, "meta"),
                                 "-config", "t.cfg", "RpcShapesTrace.tla"], cwd=d, stdout=fo, stderr=subprocess.STDOUT, timeout=1800)
            out = open(os.path.join(d, "tlc.out")).read()
            fail = tlc_failed(out, pr.returncode)
            if fail:
                raise Inconclusive("shape trace validation failed in %s: %s" % (d, fail))
            v = tlc_violation(out)
            if not v:
                break
            ps = re.findall(r"/\\ pos = (\d+)", out)
            pos = int(ps[-1]) - 1
            bad = remaining[pos - 1]
            violations.append(dict(what=v, event=bad))
            # one report per (rpc, violated clause, offending field classes): drop its siblings, keep looking for others
            base = {"exact", "valid", "present", "small", "one"}
            sig = lambda e: (e["rpc"], e["outcome"], tuple(sorted((k, c) for k, c in e["shape"].items() if c not in base))[:1])
            remaining = [e for e in remaining if sig(e) != sig(bad)]
    # de-duplicate across chunks
    # Announce / Discover over the real transport (Membership.tla): a request that is not signed by the address it names
    # is refused and leaves every peer table as it was; one that is, is entered - judged by TLC on the recorded run
    import memberchk
    mviol, mev, macts, mbeh = memberchk.run(tier, os.path.join(wd, "member"), drivebin, nrandom=25 if tier == "quick" else 300)
    member_note = "discovery protocol: %d behaviours, %d events %s" % (mbeh, mev, macts)
    for v in mviol:
        if v["event"].get("a") == "Adv":
            violations.append(dict(what="C15_PeerTableOnlyBySignedRequest (%s)" % v["what"],
                                   event={"rpc": "gossip." + v["event"]["kind"].capitalize(), "msg": "ConnectionData", "must": False,
                                          "shape": {}, "recorded": v["event"]}, behaviour=v["behaviour"]))
        else:
            member_note += "; NOT explained by Membership.tla at a %s step (outside C15, see ./check M01)" % v["event"].get("a")
    # a well-formed Confirm / Reject that the ledger cannot serve right now (it first has to drop an invalid tentative
    # tip) ends in an error: like every refused request it must leave the awaiting cache as it was (Notary.tla, KeepRule)
    import notarychk
    bviol, _, _ = notarychk.drive_validate(os.path.join(wd, "badtip"), drivebin,
                                           [{"id": "C15-badtip-%d" % i, "ops": ops} for i, ops in enumerate(notarychk.directed_badtip())], [])
    for v in bviol:
        op = v["event"].get("op", {})
        if v["event"].get("res") not in (None, "ok") and op.get("op") in ("confirm", "reject"):
            violations.append(dict(what="C15_RejectedLeavesStateUnchanged (notary, %s)" % v["what"],
                                   event={"rpc": "notary." + op["op"].capitalize(), "msg": "Transaction", "must": False, "shape": {},
                                          "outcome": "error", "detail": "awaiting after the failed call: %s" % v["event"].get("awaiting"),
                                          "recorded": v["event"]}, behaviour=v["behaviour"]))
    # the webhook service (Webhooks.tla): the subscription table has no getter, so "a refused Webhooks request leaves it
    # unchanged" is judged on runs where every step is followed by one probe notification per address
    import webhookchk
    wviol, wev, wacts, wbeh = webhookchk.run(tier, os.path.join(wd, "webhook"), drivebin, nrandom=30 if tier == "quick" else 600)
    webhook_note = "webhook subscriptions: %d behaviours, %d events %s" % (wbeh, wev, wacts)
    for v in wviol:
        if v["event"].get("a") == "Sub":
            violations.append(dict(what="C15_RejectedLeavesStateUnchanged (webhooks, %s)" % v["what"],
                                   event={"rpc": "webhooks.Webhooks", "msg": "SignedHash", "must": False, "shape": {},
                                          "outcome": v["event"].get("res"), "webhook": True, "recorded": v["event"]},
                                   behaviour=v["behaviour"]))
        else:
            webhook_note += "; NOT explained by Webhooks.tla at a %s step (outside C15, see ./check W01)" % v["event"].get("a")
    wcrashed, wdetail = webhookchk.stress(tier, os.path.join(wd, "webhook-stress"), drivebin)
    if wcrashed and ("fatal error" in wdetail or "panic" in wdetail):
        violations.append(dict(what="C15_NoCrash", event={"rpc": "webhooks.Webhooks+notifications", "msg": "SignedHash", "must": False, "shape": {},
                                                        "outcome": "process died", "detail": wdetail}))
    else:
        webhook_note += "; concurrent valid Webhooks / notifications: " + wdetail
    log("[webhook] " + webhook_note)
    crashed, detail = memberchk.stress(tier, os.path.join(wd, "member-stress"), drivebin)
    if crashed:
        violations.append(dict(what="C15_NoCrash", event={"rpc": "gossip.Discover+Announce", "msg": "ConnectionData", "must": False, "shape": {},
                                                        "outcome": "process died", "detail": detail}))
    else:
        member_note += "; concurrent valid Discover / Announce: " + detail
    log("[member] " + member_note)
    uniq = {}
    for v in violations:
        base = {"exact", "valid", "present", "small", "one"}
        k = (v["what"], v["event"]["rpc"], tuple(sorted((f, c) for f, c in v["event"]["shape"].items() if c not in base))[:1])
        uniq.setdefault(k, v)
    violations = list(uniq.values())
    total = sum(outcomes.values())
    distinct = len({(json.loads(s)["rpc"], json.dumps(json.loads(s)["shape"], sort_keys=True)) for s in shapes})
    wall = time.time() - t0
    cov = {"evaluations": total, "distinct_nontrivial": distinct - len(per_rpc),
           "rule": "one evaluation = one request shape (class of every field) enumerated by TLC from RpcShapes.tla, built concretely "
                   "and sent to the real handler; distinct = distinct (rpc, shape); the all-valid shape of each rpc is the only "
                   "trivial one", "samples": [json.loads(s) for s in shapes[:3]], "outcomes": outcomes, "by_rpc": per_rpc,
           "states": st["distinct"], "transitions": st["generated"], "exhaustive": tier == "thorough",
           "explanation": "shape space: every field against an otherwise valid request, every pair of fields (triples in the "
                          "thorough tier), the full product for SignedHash requests"}
    cov["discovery_protocol"] = member_note
    cov["webhook_subscriptions"] = webhook_note
    write_evidence(prop, tier, "exploration", cov, wall, len(violations),
                   ["handlers are called as Go methods with message structs built directly (incl. nil sub-messages), not decoded bytes",
                    "coverage-guided mutation of serialized requests is not attempted (different technique)", "TLC"])
    if violations:
        for i, v in enumerate(violations):
            path = save_replay(prop, "%s-%d" % (tier, i), v)
            print("VIOLATION property=%s replay=%s" % (prop, path), flush=True)
            log("  %s: %s" % (v["what"], json.dumps(v["event"])[:260]))
        return 1
    log("[ok] %s %s: %d requests, %.0fs" % (prop, tier, total, wall))
    return 0


def replay(prop, path):
    v = json.load(open(path))
    wd = rundir("%s-replay" % prop)
    drivebin = build_harness(into=wd)
    e = v["event"]
    if "recorded" in e and e["rpc"].startswith("notary."):
        import notarychk
        bviol, _, _ = notarychk.drive_validate(os.path.join(wd, "badtip"), drivebin, [v.get("behaviour") or {"id": "replay", "ops": []}], [])
        if bviol:
            print("VIOLATION property=%s replay=%s" % (prop, path), flush=True)
            log("  " + json.dumps(bviol[0]["event"])[:300])
            return 1
        log("replay: the notary behaviour is explained by Notary.tla")
        return 0
    if "recorded" in e and e.get("webhook"):
        import webhookchk
        beh = v.get("behaviour") or {"id": "replay", "wallets": webhookchk.WALLETS, "urls": webhookchk.URLS, "ops": []}
        wviol, _, _ = webhookchk.drive_validate(os.path.join(wd, "webhook"), drivebin, [beh])
        if any(x["event"].get("a") == "Sub" for x in wviol):
            print("VIOLATION property=%s replay=%s" % (prop, path), flush=True)
            log("  " + json.dumps(wviol[0]["event"])[:300])
            return 1
        log("replay: the webhook behaviour is explained by Webhooks.tla")
        return 0
    if "recorded" in e:
        # a step of the discovery protocol: run the behaviour it came from again, TLC judges the new recording
        import memberchk
        beh = v.get("behaviour") or {"id": "replay", "nodes": memberchk.NODES, "genesis": "g", "ops": []}
        mviol, _, _ = memberchk.drive_validate(os.path.join(wd, "member"), drivebin, [beh])
        if any(x["event"].get("a") == "Adv" for x in mviol):
            print("VIOLATION property=%s replay=%s" % (prop, path), flush=True)
            log("  " + json.dumps(mviol[0]["event"])[:300])
            return 1
        log("replay: the discovery behaviour is explained by Membership.tla")
        return 0
    open(os.path.join(wd, "shapes.ndjson"), "w").write(json.dumps({"rpc": e["rpc"], "msg": e["msg"], "shape": e["shape"], "must": e["must"]}) + "\n")
    subprocess.run([drivebin, "shapes", "shapes.ndjson", "trace.ndjson"], cwd=wd, stdout=subprocess.PIPE, stderr=subprocess.DEVNULL, timeout=600)
    r = json.loads(open(os.path.join(wd, "trace.ndjson")).readline())
    bad = r["outcome"] == "panic" or (r["outcome"] == "error" and not r["unchanged"]) or (r["must"] and r["outcome"] == "ok")
    if bad:
        print("VIOLATION property=%s replay=%s" % (prop, path), flush=True)
        log("  " + json.dumps(r))
        return 1
    log("replay: request handled as specified: " + json.dumps(r))
    return 0
