"""C04: tamper evidence (Seal.tla + seal driver)."""
import json
import os
import re
import subprocess
import time

from common import (Inconclusive, NCPU, TLC_CP, build_harness, copy_specs, log, rundir, save_replay, seed,
                    tlc, tlc_failed, tlc_stats, tlc_violation, write_cfg, write_evidence)

CONST = {"Letters": '{"a","b"}', "Keys": '{"I","R","S","M"}'}


def check(prop, tier):
    t0 = time.time()
    wd = rundir("%s-%s" % (prop, tier))
    drivebin = build_harness(into=wd)
    copy_specs(wd, ["Seal.tla", "SealTrace.tla"])
    write_cfg(os.path.join(wd, "mc.cfg"), "Spec", CONST, ["HonestOK", "C04_TamperEvidentModuloKnown"])
    rc, out = tlc(wd, "Seal.tla", os.path.join(wd, "mc.cfg"), workers=4, timeout=900)
    fail = tlc_failed(out, rc)
    if fail or tlc_violation(out):
        raise Inconclusive("Seal model run failed / violated: %s" % (fail or tlc_violation(out)))
    mc = tlc_stats(out)
    tf = os.path.join(wd, "trace.ndjson")
    p = subprocess.run([drivebin, "seal", tf, str(seed()), tier], capture_output=True, text=True, timeout=3000, cwd=wd)
    if p.returncode != 0:
        raise Inconclusive("seal driver failed: " + p.stderr[-400:])
    events = [json.loads(l) for l in open(tf)]
    const = dict(CONST, TraceFile='"trace.ndjson"')
    violations, known = [], {}
    remaining = events
    for round_ in range(12):
        with open(tf, "w") as f:
            for e in remaining:
                f.write(json.dumps(e) + "\n")
        # first the claim modulo the known findings (verdict), the strict claim is evaluated on the same events below
        write_cfg(os.path.join(wd, "t.cfg"), "TSpec", const, ["C04_ModuloKnown", "C04_Conforms"], postcondition="Accepted")
        fo = open(os.path.join(wd, "tlc.out"), "w")
        pr = subprocess.run(["java", "-Xss32m", "-cp", TLC_CP, "tlc2.TLC", "-workers", "1", "-metadir", os.path.join(wd, "meta"),
                             "-config", "t.cfg", "SealTrace.tla"], cwd=wd, stdout=fo, stderr=subprocess.STDOUT, timeout=1800)
        out = open(os.path.join(wd, "tlc.out")).read()
        fail = tlc_failed(out, pr.returncode)
        if fail:
            raise Inconclusive("seal trace validation failed: " + fail)
        v = tlc_violation(out)
        if not v:
            break
        ps = re.findall(r"/\\ pos = (\d+)", out)
        pos = int(ps[-1]) - 1
        bad = remaining[pos - 1]
        violations.append(dict(what=v, event=bad))
        remaining = [e for e in remaining if not (e["abs"] == bad["abs"] and e["kind"] == bad["kind"])]
    # known findings: the strict claim on the design-level events
    design = [e for e in events if e["kind"] == "design"]
    for e in design:
        admitted = e["res"] in ("ok", "parentmissing")
        if e["differs"] and admitted:
            fid = "F12" if e["abs"] == "rsig.strip" else "F11"
            known[fid] = e
    if "F11" in known:
        print("KNOWN-FINDING: property=C04 a vertex whose transaction has bytes moved between subject and data keeps a valid hash "
              "and issuer signature (the signed message is a bare concatenation) and is admitted (F11; witness replayed on this tree)",
              flush=True)
    if "F12" in known:
        print("KNOWN-FINDING: property=C04 a vertex whose countersigned transaction had the receiver signature stripped is admitted: "
              "no digest covers the receiver signature and it is verified only when present (F12; witness replayed on this tree)",
              flush=True)
    kinds = {}
    for e in events:
        kinds[e["abs"] + "/" + e["kind"]] = kinds.get(e["abs"] + "/" + e["kind"], 0) + 1
    wall = time.time() - t0
    cov = {"states": mc["distinct"], "transitions": mc["generated"], "traces_validated_against_impl": len(events) - len(violations),
           "samples": events[:2] + design[:2], "offers_by_mutation": kinds, "evaluations": len(events),
           "explanation": "Seal.tla: every abstract mutation of every honest vertex of the bounded universe; real code: all concrete "
                          "members (every single-bit flip of every fixed-size field, every address position, truncations, extensions, "
                          "boundary moves, swaps, replaced / stripped signatures, seeded multi-bit flips) offered through AddLeaf; the "
                          "node must admit a copy exactly when the abstract copy verifies in the model"}
    write_evidence(prop, tier, "model_checking", cov, wall, len(violations),
                   ["cryptographic strength of ed25519 / sha256 is assumed (hashing injective, signatures unforgeable)", "TLC",
                    "LoadDag does not verify signatures at all: a DAG stream from the bootstrap peer is trusted (not part of this check)"])
    if violations:
        for i, v in enumerate(violations):
            path = save_replay(prop, "%s-%d" % (tier, i), v)
            print("VIOLATION property=%s replay=%s" % (prop, path), flush=True)
            log("  %s: %s" % (v["what"], json.dumps(v["event"])))
        return 1
    log("[ok] %s %s: %d offers, %.0fs" % (prop, tier, len(events), wall))
    return 0


def replay(prop, path):
    return check(prop, "quick")
