"""Checks decided with Ledger.tla: C01 C02 C03 C06 C07 C09 C10 C13 C14.

Pipeline of one check:
  MC     bounded exhaustive TLC run of LedgerMC (design level)
  GEN    behaviours: tlc -simulate of LedgerMC (seeded) + directed families written here
  DRIVE  the Go driver executes them on real AccountingBooks and records NDJSON traces
  TRACE  TLC validates the traces with LedgerTrace.tla: the property's invariants / step
         properties on the recorded real states, and conformance of the property's own actions
"""
import json
import os
import random
import re
import subprocess
import time

from common import (Inconclusive, NCPU, OUT, SPECS, build_harness, copy_specs, log, rundir,
                    save_replay, seed, tla_set, tlc, tlc_failed, tlc_stats, tlc_violation, write_cfg,
                    write_evidence, load_known)

# ------------------------------------------------------------------------------------------
# universes (must agree with LedgerMC.tla profiles)

TRX = {
    "single": [
        {"id": "t1", "iss": "GR", "rcv": "A", "amt": 6, "data": False},
        {"id": "t2", "iss": "GR", "rcv": "B", "amt": 6, "data": False},
        {"id": "t3", "iss": "A", "rcv": "B", "amt": 4, "data": False},
        {"id": "t4", "iss": "A", "rcv": "A", "amt": 3, "data": False},
        {"id": "t5", "iss": "B", "rcv": "A", "amt": 0, "data": True},
        {"id": "t6", "iss": "A", "rcv": "B", "amt": 9, "data": False},
    ],
    "rules": [
        {"id": "t1", "iss": "GR", "rcv": "A", "amt": 6, "data": False},
        {"id": "t7", "iss": "N2", "rcv": "A", "amt": 1, "data": False},
        {"id": "t8", "iss": "N1", "rcv": "A", "amt": 1, "data": False},
        {"id": "t9", "iss": "A", "rcv": "B", "amt": 0, "data": False},
        {"id": "t5", "iss": "B", "rcv": "A", "amt": 0, "data": True},
        {"id": "t10", "iss": "A", "rcv": "B", "amt": 1, "data": True, "nc": True},
    ],
    "two": [
        {"id": "t1", "iss": "GR", "rcv": "A", "amt": 10, "data": False},
        {"id": "t2", "iss": "GR", "rcv": "B", "amt": 10, "data": False},
        {"id": "t3", "iss": "A", "rcv": "B", "amt": 4, "data": False},
    ],
}

UNITS = [[1, 0], [0, 600000000000000000], [3, 999999999999999999], [0, 1], [0, 250000000000000000]]

# RootRule / CkSelf describe the tree being verified; they are flipped to the repaired values by
# the same commit that repairs the code (see known_findings.json "fixed" entries).
CODE_MODEL = {"RootRule": '"genesis"', "CkSelf": '"both"', "CanonRule": '"guarded"', "NoTipRule": '"error"'}

SHAPES = {
    # name: (nodes, wallets, sealers, profile)
    "single": (["N1"], ["N1", "N2", "GR", "A", "B"], ["N2"], "single"),
    "rules": (["N1"], ["N1", "N2", "GR", "A", "B"], ["N2"], "rules"),
    "two": (["N1", "N2"], ["N1", "N2", "N3", "GR", "A", "B"], ["N3"], "two"),
    "twosingle": (["N1", "N2"], ["N1", "N2", "N3", "GR", "A", "B"], ["N3"], "single"),
    "rules-selfgenesis": (["N1"], ["N1", "N2", "GR", "A", "B"], ["N2"], "rules"),
}


def mc_constants(shape, maxv, inflight, maxcraft, toggle, trunc=2, jump="{}", maxthr=14, gendepth=0,
                 initthr=2, parked=2, repeats=1, model=None, cancel=False):
    nodes, wallets, sealers, profile = SHAPES[shape]
    c = {"Node": tla_set(nodes), "Wallet": tla_set(wallets), "GR": '"GR"', "Supply": "10",
         "InitThr": str(initthr), "TruncDepth": str(trunc), "MaxParked": str(parked), "MaxRepeats": str(repeats),
         "Sealers": tla_set(sealers), "MaxV": str(maxv), "MaxInflight": str(inflight), "JumpW": jump,
         "Profile": '"%s"' % profile, "MaxCraft": str(maxcraft), "MaxToggle": str(toggle),
         "GenDepth": str(gendepth), "MaxThr": str(maxthr), "WithCancel": "TRUE" if cancel else "FALSE"}
    c.update(model or {"RootRule": '"genesis"', "CkSelf": '"both"', "CanonRule": '"guarded"', "NoTipRule": '"error"'})
    return c


def cfg_of(shape, trunc, unit):
    nodes, wallets, sealers, profile = SHAPES[shape]
    return {"nodes": nodes, "wallets": wallets, "gr": "N1" if shape == "rules-selfgenesis" else "GR", "supply": 10,
            "truncDepth": trunc, "unit": unit, "trx": [dict(t, nc=t.get("nc", False)) for t in TRX[profile]]}


# ------------------------------------------------------------------------------------------
# MC

MC_INV = ["TypeOK", "C03_UniqueTrx", "C03_IndexExact", "C09_WellFormed", "C10_SealingRules", "C05_CanonicalOnly"]
MC_PROP = ["C03_Reproposable", "C09_LocalCreate", "C01_NoOverdraftConfirmed", "C01_OnlyTipsDropped",
           "C07_Transparent", "C14_LoadEqualsSource"]


def run_mc(wd, name, constants, invariants, properties, workers, timeout):
    copy_specs(wd, ["Ledger.tla", "LedgerMC.tla"])
    cfg = os.path.join(wd, name + ".cfg")
    write_cfg(cfg, "Spec", constants, invariants, properties, constraint="StateConstraint", view="View")
    t0 = time.time()
    rc, out = tlc(wd, "LedgerMC.tla", cfg, workers=workers, timeout=timeout)
    open(os.path.join(wd, name + ".out"), "w").write(out)
    fail = tlc_failed(out, rc)
    st = tlc_stats(out)
    viol = tlc_violation(out)
    if st is None and not fail and not viol:
        fail = "TLC ended without statistics (rc=%s): killed or out of memory" % rc
    return {"name": name, "wall": time.time() - t0, "fail": fail, "stats": st, "violation": viol, "out": out,
            "constants": {k: v for k, v in constants.items()}}


# ------------------------------------------------------------------------------------------
# GEN

def simulate(wd, shape, n, depth, sd, trunc=2, maxv=9, inflight=2, maxcraft=3, toggle=2, jump="{}"):
    """Behaviours from tlc -simulate of LedgerMC (model of the repaired code; any divergence of the
    real code is judged by the trace validation, not here)."""
    copy_specs(wd, ["Ledger.tla", "LedgerMC.tla"])
    name = "gen_%s_%d" % (shape, sd)
    cfg = os.path.join(wd, name + ".cfg")
    const = mc_constants(shape, maxv, inflight, maxcraft, toggle, trunc=trunc, jump=jump, maxthr=0,
                         gendepth=depth - 1, initthr=50, parked=500, repeats=25)
    write_cfg(cfg, "GenSpec", const, invariants=["GenEmit"])
    rc, out = tlc(wd, "LedgerMC.tla", cfg, workers=1, timeout=300,
                  simulate="num=%d" % n, extra=["-depth", str(depth), "-seed", str(sd)])
    fail = tlc_failed(out, rc)
    if fail:
        open(os.path.join(wd, name + ".out"), "w").write(out)
        raise Inconclusive("behaviour generation failed (%s), see %s" % (fail, os.path.join(wd, name + ".out")))
    seen, res = set(), []
    for m in re.finditer(r'<<"BEHAVIOUR", "(.*)">>', out):
        js = m.group(1).encode().decode("unicode_escape")
        if js in seen:
            continue
        seen.add(js)
        res.append(json.loads(js))
    return res


def observe_ops(rng, cfg, nv, nodes):
    """A few read-only operations (their verdicts come from the trace specification)."""
    ops = []
    n = rng.choice(nodes)
    ops.append({"op": "balance", "n": n, "wl": rng.choice(cfg["wallets"] + ["nobody"])})
    if rng.random() < 0.3:
        ops.append({"op": "history", "n": n, "wl": rng.choice(cfg["wallets"] + ["nobody"])})
    if nv and rng.random() < 0.5:
        ops.append({"op": "readvtx", "n": n, "v": rng.randint(1, nv)})
    if rng.random() < 0.5:
        ops.append({"op": "readtrx", "n": n, "t": rng.choice(cfg["trx"])["id"]})
    return ops


def final_ops(cfg, nv, nodes, heavy=True):
    ops = []
    for n in nodes:
        for w in cfg["wallets"] + ["nobody"]:
            ops.append({"op": "balance", "n": n, "wl": w, "times": 2})
            ops.append({"op": "history", "n": n, "wl": w})
        for t in cfg["trx"]:
            ops.append({"op": "readtrx", "n": n, "t": t["id"]})
        for v in range(1, nv + 1):
            ops.append({"op": "readvtx", "n": n, "v": v})
        if heavy:
            # offer everything again: nothing may be admitted twice, checkpointed content stays refused
            for v in range(1, nv + 1):
                ops.append({"op": "deliver", "n": n, "v": v})
            for t in cfg["trx"]:
                ops.append({"op": "propose", "n": n, "t": t["id"], "id": 0})
            for w in cfg["wallets"]:
                ops.append({"op": "balance", "n": n, "wl": w})
    return ops


def enrich(rng, cfg, ops, density=0.5, heavy=True):
    nodes = cfg["nodes"]
    out, nv = [], 0
    for op in ops:
        if op["op"] == "load" and rng.random() < float(os.environ.get("VERIF_NETLOAD", "0.5")):
            # the same load through the real transport: gossip server, proto mapping, updateDag (loopback gRPC)
            op = dict(op, op="netload")
        out.append(op)
        if op.get("id", 0) > nv:
            nv = op["id"]
        if op["op"] in ("commit", "truncate", "genesis", "load", "netload", "propose", "deliver", "tick") and rng.random() < density:
            out += observe_ops(rng, cfg, nv, nodes)
    out += final_ops(cfg, nv + len(cfg["trx"]), nodes, heavy)
    return out


# ---- directed families -------------------------------------------------------------------

def P(n, t, i):
    return {"op": "propose", "n": n, "t": t, "id": i}


def D(n, v):
    return {"op": "deliver", "n": n, "v": v}


def G(n="N1"):
    return {"op": "genesis", "n": n, "id": 1}


def fam_truncation(rng):
    """Chains, side tips hanging off old vertices, diamonds, repeated truncation, self transfers."""
    out = []
    base = [G(), P("N1", "t1", 2), P("N1", "t3", 3), P("N1", "t4", 4), P("N1", "t5", 5)]
    for depth in (1, 2, 3):
        # plain chain, one and two truncations, then spending checkpointed funds
        out.append(("single", depth, base + [{"op": "truncate", "n": "N1"}, P("N1", "t2", 6), {"op": "truncate", "n": "N1"},
                                           P("N1", "t6", 7)]))
        # self transfer checkpointed
        out.append(("single", depth, [G(), P("N1", "t1", 2), P("N1", "t4", 3), P("N1", "t3", 4), P("N1", "t5", 5),
                                      P("N1", "t2", 6), {"op": "truncate", "n": "N1"}, {"op": "truncate", "n": "N1"}]))
        # a side tip crafted on old vertices, then truncation below it, then building on it
        for t in ("t6", "t3", "t5", "t2"):
            out.append(("single", depth, [G(), P("N1", "t1", 2),
                                          {"op": "craft", "s": "N2", "t": t, "l": 1, "r": 2, "w": 2, "id": 3},
                                          P("N1", "t3" if t != "t3" else "t4", 4), D("N1", 3),
                                          P("N1", "t5" if t != "t5" else "t4", 5), {"op": "truncate", "n": "N1"},
                                          {"op": "truncate", "n": "N1"}, P("N1", "t4" if t not in ("t3", "t5") else "t2", 6),
                                          P("N1", "t2" if t not in ("t2", "t3", "t5") else "t6", 7)]))
        # side tip delivered before the long chain grows, truncated away from under it
        for t in ("t6", "t5", "t3"):
            ops = [G(), P("N1", "t1", 2), {"op": "craft", "s": "N2", "t": t, "l": 2, "r": 2, "w": 2, "id": 3}]
            others = [x for x in ("t2", "t3", "t4", "t5") if x != t]
            ops += [P("N1", others[0], 4)]
            ops += [D("N1", 3)]
            # grow only one branch by crafting on 4
            ops += [{"op": "craft", "s": "N2", "t": others[1], "l": 4, "r": 4, "w": 3, "id": 5}, D("N1", 5),
                    {"op": "craft", "s": "N2", "t": others[2], "l": 5, "r": 5, "w": 4, "id": 6}, D("N1", 6),
                    {"op": "truncate", "n": "N1"}, {"op": "truncate", "n": "N1"}, {"op": "truncate", "n": "N1"},
                    P("N1", "t6" if t != "t6" else "t2", 7)]
            out.append(("single", depth, ops))
    return out


def fam_trunc_cancel(rng):
    """A truncation whose context is cancelled at its k-th inspection (shutdown), for every k until it completes."""
    out = []
    chain = [G(), P("N1", "t1", 2), P("N1", "t3", 3), P("N1", "t4", 4), P("N1", "t5", 5), P("N1", "t2", 6), P("N1", "t6", 7)]
    side = [G(), P("N1", "t1", 2), {"op": "craft", "s": "N2", "t": "t6", "l": 1, "r": 2, "w": 2, "id": 3},
            P("N1", "t3", 4), D("N1", 3), P("N1", "t5", 5), P("N1", "t4", 6), P("N1", "t2", 7)]
    for depth in (1, 2, 3):
        for k in range(1, 15):
            # on a fresh graph, and after a completed truncation (store and checkpoint not empty)
            out.append(("single", depth, chain + [{"op": "truncate", "n": "N1", "cancel": k}]))
            out.append(("single", depth, chain[:5] + [{"op": "truncate", "n": "N1"}] + chain[5:] + [{"op": "truncate", "n": "N1", "cancel": k}]))
            if k % 2 == 1:
                out.append(("single", depth, side + [{"op": "truncate", "n": "N1", "cancel": k}]))

    return out


def fam_trunc_retry(rng):
    """A cancelled truncation after which the node lives on: the next truncations meet the half-moved vertices."""
    out = []
    chain = [G(), P("N1", "t1", 2), P("N1", "t3", 3), P("N1", "t4", 4), P("N1", "t5", 5), P("N1", "t2", 6), P("N1", "t6", 7)]
    for depth in (1, 2, 3):
        for k in range(1, 15):
            out.append(("single", depth, chain + [{"op": "truncate", "n": "N1", "cancel": k, "kind": "cont"}, {"op": "truncate", "n": "N1"},
                                                  {"op": "balance", "n": "N1", "wl": "A"}, {"op": "truncate", "n": "N1"}]))
    return out


def fam_forged(rng):
    """Forged copies of a genuine vertex (same hash and seal, rewritten parents / weight / amount) offered before the
    node has seen the genuine one, while the genuine one is parked (verified, not admitted), and after it is held."""
    out = []
    for kind in ("parents", "weight", "amount"):
        F = lambda v: {"op": "forge", "n": "N1", "v": v, "kind": kind}
        base = [G(), P("N1", "t1", 2),
                {"op": "craft", "s": "N2", "t": "t3", "l": 2, "r": 2, "w": 2, "id": 3},
                {"op": "craft", "s": "N2", "t": "t5", "l": 3, "r": 3, "w": 3, "id": 4}]
        # unseen; parked genuine child, then the forged copy; genuine admitted by retry, forged again
        out.append(("single", 2, base + [F(4), F(3), D("N1", 4), F(4), F(4), D("N1", 3), F(3), {"op": "tick", "n": "N1"}, F(4), F(3),
                                         P("N1", "t2", 5), F(4)]))
        # the forged copy first, then the genuine vertex must still be admitted
        out.append(("single", 2, base + [F(3), D("N1", 3), F(4), D("N1", 4), F(4), P("N1", "t2", 5), {"op": "truncate", "n": "N1"}, F(3), F(4)]))
    return out


def fam_revoked(rng):
    """Trust granted to a sealing node and revoked again: a valid vertex it sealed while trusted stays, an overdraft it
    seals afterwards is dropped like anybody's; trust granted again later does not bring it back."""
    out = []
    T, U = {"op": "trust", "n": "N1", "a": "N2"}, {"op": "untrust", "n": "N1", "a": "N2"}
    for depth in (1, 2):
        ops = [G(), P("N1", "t1", 2), T,
               {"op": "craft", "s": "N2", "t": "t3", "l": 2, "r": 2, "w": 2, "id": 3}, D("N1", 3), P("N1", "t5", 4),   # validated while trusted
               U, {"op": "craft", "s": "N2", "t": "t6", "l": 4, "r": 4, "w": 4, "id": 5}, D("N1", 5),                   # overdraft after revocation
               P("N1", "t2", 6), P("N1", "t4", 7), {"op": "balance", "n": "N1", "wl": "A"}, {"op": "truncate", "n": "N1"},
               T, P("N1", "t6", 8), U, P("N1", "t6", 9)]
        out.append(("single", depth, ops))
        # trust and self-sealed / empty / overdraft vertices of the trusted node
        ops = [G(), P("N1", "t1", 2), T, {"op": "craft", "s": "N2", "t": "t6", "l": 2, "r": 2, "w": 2, "id": 3}, D("N1", 3), P("N1", "t2", 4),
               U, P("N1", "t3", 5), {"op": "balance", "n": "N1", "wl": "A"}, {"op": "balance", "n": "N1", "wl": "B"}]
        out.append(("single", depth, ops))
    return out


def fam_selfmint(rng):
    """A wallet pays itself and then spends what it would have if the self transfer counted as income only: the spend is an
    overdraft and must be dropped - before and after the self transfer has been checkpointed."""
    out = []
    for depth in (1, 2):
        # t1: A+6, t4: A->A 3, t6: A->B 9 (A holds 6)
        out.append(("single", depth, [G(), P("N1", "t1", 2), P("N1", "t4", 3), P("N1", "t6", 4), P("N1", "t2", 5), P("N1", "t5", 6),
                                      {"op": "balance", "n": "N1", "wl": "A"}, {"op": "balance", "n": "N1", "wl": "B"}]))
        out.append(("single", depth, [G(), P("N1", "t1", 2), P("N1", "t4", 3), P("N1", "t2", 4), P("N1", "t5", 5), {"op": "truncate", "n": "N1"},
                                      {"op": "truncate", "n": "N1"}, P("N1", "t6", 6), P("N1", "t3", 7), {"op": "balance", "n": "N1", "wl": "A"}]))
        # the same through gossip: the overdraft sealed by another node, then a child
        out.append(("single", depth, [G(), P("N1", "t1", 2), P("N1", "t4", 3),
                                      {"op": "craft", "s": "N2", "t": "t6", "l": 3, "r": 3, "w": 3, "id": 4}, D("N1", 4),
                                      {"op": "craft", "s": "N2", "t": "t5", "l": 4, "r": 4, "w": 4, "id": 5}, D("N1", 5), P("N1", "t2", 6)]))
    return out


def fam_weights(rng):
    """A delivered vertex that claims a weight far above its parents' moves the weight window: tips below the window
    become invalid (and are dropped by the next proposal), deliveries below it are refused.  Around the boundary
    weight = current - throughput, and far above it."""
    out = []
    for w in list(range(56, 72)) + [100, 300, 5000]:
        pre = [G(), P("N1", "t1", 2), P("N1", "t2", 3), {"op": "craft", "s": "N2", "t": "t5", "l": 3, "r": 3, "w": w, "id": 4},
               P("N1", "t3", 5)]
        # the claimed weight arrives while an honest tip of small weight exists
        out.append(("single", 1, pre + [D("N1", 4), P("N1", "t4", 6), {"op": "balance", "n": "N1", "wl": "A"},
                                        {"op": "balance", "n": "N1", "wl": "B"}, P("N1", "t6", 7)]))
        # a low-weight vertex delivered after the window has moved
        out.append(("single", 1, pre + [{"op": "craft", "s": "N2", "t": "t4", "l": 3, "r": 3, "w": 4, "id": 6}, D("N1", 4), D("N1", 6),
                                        P("N1", "t6", 7)]))
        # the vertex that moved the window is itself an overdraft: it is dropped, the window stays, and proposal after
        # proposal drops the ledger tip by tip until no tip is left (finding F18: the next proposal used to panic)
        if w >= 70:
            out.append(("single", 1, [G(), P("N1", "t1", 2), {"op": "craft", "s": "N2", "t": "t6", "l": 2, "r": 2, "w": w, "id": 3},
                                      D("N1", 3)] + [P("N1", "t2", 4)] * 6 + [{"op": "balance", "n": "N1", "wl": "A"}]))
        # and truncation afterwards
        out.append(("single", 2, pre + [D("N1", 4), P("N1", "t4", 6), P("N1", "t6", 7), {"op": "truncate", "n": "N1"},
                                        {"op": "balance", "n": "N1", "wl": "A"}]))
    return out


def fam_cancel(rng):
    """The caller of a proposal / the peer of a delivery goes away while the node validates tips: the context is
    cancelled at its k-th inspection.  On an overdraft tip (must be dropped either way, never built upon), on valid
    tips (the code drops them - modelled as it is), with one and with two tips."""
    out = []
    for k in range(1, 7):
        base = [G(), P("N1", "t1", 2), P("N1", "t3", 3)]
        over = base + [{"op": "craft", "s": "N2", "t": "t6", "l": 3, "r": 3, "w": 3, "id": 4}, D("N1", 4)]
        child = {"op": "craft", "s": "N2", "t": "t5", "l": 4, "r": 4, "w": 4, "id": 5}
        # a gossiped child of an overdraft tip, its delivery cancelled
        out.append(("single", 2, over + [child, dict(D("N1", 5), cancel=k), P("N1", "t2", 6), P("N1", "t4", 7)]))
        # a proposal cancelled while it validates the overdraft tip / a valid tip
        out.append(("single", 2, over + [dict(P("N1", "t2", 5), cancel=k), P("N1", "t2", 5), P("N1", "t4", 6)]))
        out.append(("single", 2, base + [dict(P("N1", "t2", 4), cancel=k), P("N1", "t2", 4), P("N1", "t4", 5)]))
        # a gossiped child of a valid tip, its delivery cancelled; two tips
        valid = base + [{"op": "craft", "s": "N2", "t": "t5", "l": 3, "r": 3, "w": 3, "id": 4},
                        {"op": "craft", "s": "N2", "t": "t2", "l": 2, "r": 3, "w": 3, "id": 5}]
        out.append(("single", 2, valid + [dict(D("N1", 4), cancel=k), D("N1", 4), P("N1", "t4", 6)]))
        out.append(("single", 2, valid + [D("N1", 5), {"op": "craft", "s": "N2", "t": "t4", "l": 3, "r": 5, "w": 4, "id": 6},
                                          dict(D("N1", 6), cancel=k), D("N1", 6), dict(P("N1", "t5", 7), cancel=k), P("N1", "t5", 7)]))
    return out


def fam_trunc_race(rng):
    """Balance queries that start in the middle of a truncation (they block on the book lock until it is done)."""
    out = []
    for depth in (1, 2):
        for at in (1, 2, 3, 5):
            out.append(("drain", depth, [G(), P("N1", "t1", 2), P("N1", "t2", 3), P("N1", "t3", 4), P("N1", "t6", 5),
                                         {"op": "truncate", "n": "N1", "at": at}, P("N1", "t5", 6), {"op": "truncate", "n": "N1", "at": at},
                                         {"op": "truncate", "n": "N1", "at": at + 1}]))
            out.append(("single", depth, [G(), P("N1", "t1", 2), P("N1", "t3", 3), P("N1", "t4", 4), P("N1", "t5", 5),
                                          {"op": "truncate", "n": "N1", "at": at}, {"op": "truncate", "n": "N1", "at": at}]))
    return out


def fam_drain(rng):
    """Wallets that are drained to exactly zero between truncations."""
    out = []
    chain = [G(), P("N1", "t1", 2), P("N1", "t2", 3), P("N1", "t3", 4), P("N1", "t6", 5), P("N1", "t5", 6)]
    for depth in (1, 2):
        ops = list(chain)
        for i in range(6):
            ops.append({"op": "truncate", "n": "N1"})
        ops += [P("N1", "t4", 7), {"op": "truncate", "n": "N1"}, {"op": "truncate", "n": "N1"}]
        out.append(("drain", depth, ops))
        ops = [G(), P("N1", "t1", 2), {"op": "truncate", "n": "N1"}, P("N1", "t2", 3), {"op": "truncate", "n": "N1"},
               P("N1", "t3", 4), {"op": "truncate", "n": "N1"}, P("N1", "t6", 5), {"op": "truncate", "n": "N1"},
               P("N1", "t5", 6), {"op": "truncate", "n": "N1"}, P("N1", "t4", 7), {"op": "truncate", "n": "N1"},
               {"op": "truncate", "n": "N1"}]
        out.append(("drain", depth, ops))
    return out


TRX["stale"] = [
    {"id": "t1", "iss": "GR", "rcv": "A", "amt": 10, "data": False},
    {"id": "t2", "iss": "A", "rcv": "B", "amt": 10, "data": False},
    {"id": "t3", "iss": "B", "rcv": "A", "amt": 0, "data": True},
    {"id": "t4", "iss": "A", "rcv": "B", "amt": 5, "data": False},
    {"id": "t5", "iss": "B", "rcv": "A", "amt": 0, "data": True},
    {"id": "t6", "iss": "B", "rcv": "A", "amt": 0, "data": True},
    {"id": "t7", "iss": "B", "rcv": "A", "amt": 0, "data": True},
    {"id": "t8", "iss": "B", "rcv": "B", "amt": 0, "data": True},
    {"id": "t9", "iss": "B", "rcv": "A", "amt": 0, "data": True},
]
SHAPES["stale"] = (["N1"], ["N1", "N2", "GR", "A", "B"], ["N2"], "stale")


def fam_stale(rng):
    """Income checkpointed, read, then the spend checkpointed too: whoever keeps the first value sees funds that are gone.
    The overspend that follows has to be dropped, with reads of every kind between the truncations."""
    out = []
    reads = [{"op": "balance", "n": "N1", "wl": "A"}, {"op": "balance", "n": "N1", "wl": "B"}, {"op": "history", "n": "N1", "wl": "A"}]
    T = {"op": "truncate", "n": "N1"}
    for depth in (1, 2):
        # truncation keeps the `depth` + 1 youngest vertices of a chain: pad accordingly
        pad1 = [P("N1", "t5", 0)] + ([P("N1", "t3", 0)] if depth == 2 else [])
        pad2 = [P("N1", "t6", 0), P("N1", "t7", 0)] + ([P("N1", "t8", 0)] if depth == 2 else [])
        ops = [G(), P("N1", "t1", 2)] + pad1 + [P("N1", "t2", 0), T] + reads      # income of A checkpointed, spend live
        ops += pad2 + [T, T] + reads                                                # the spend of A checkpointed too
        ops += [P("N1", "t4", 0), P("N1", "t9", 0), P("N1", "t4", 0)] + reads + [T] + reads
        out.append(("stale", depth, ops))
    return out


def fam_concurrent(rng):
    """The same transaction racing through the lock boundary in every two-operation schedule."""
    out = []
    k1, k2 = "N1:P:t1", "N1:P:t1b"
    pre = [G()]
    # two proposals of t1: both pass the index check, then commit one after the other
    out.append(("single", 2, pre + [{"op": "ppre", "n": "N1", "t": "t1", "k": "a"}, {"op": "ppre", "n": "N1", "t": "t1", "k": "b"},
                                    {"op": "commit", "k": "a", "id": 2}, {"op": "commit", "k": "b", "id": 3}]))
    out.append(("single", 2, pre + [{"op": "ppre", "n": "N1", "t": "t1", "k": "a"}, {"op": "ppre", "n": "N1", "t": "t1", "k": "b"},
                                    {"op": "commit", "k": "b", "id": 2}, {"op": "commit", "k": "a", "id": 3}]))
    # proposal racing with a gossiped vertex holding the same transaction
    for order in (("a", "b"), ("b", "a")):
        ops = pre + [{"op": "craft", "s": "N2", "t": "t1", "l": 1, "r": 1, "w": 1, "id": 2},
                     {"op": "ppre", "n": "N1", "t": "t1", "k": "a"}, {"op": "dpre", "n": "N1", "v": 2, "k": "b"}]
        ops += [{"op": "commit", "k": order[0], "id": 3}, {"op": "commit", "k": order[1], "id": 3}]
        out.append(("single", 2, ops))
    # two foreign vertices with the same transaction, and the same vertex twice
    for order in (("a", "b"), ("b", "a")):
        ops = pre + [{"op": "craft", "s": "N2", "t": "t1", "l": 1, "r": 1, "w": 1, "id": 2},
                     {"op": "craft", "s": "N2", "t": "t1", "l": 1, "r": 1, "w": 1, "id": 3},
                     {"op": "dpre", "n": "N1", "v": 2, "k": "a"}, {"op": "dpre", "n": "N1", "v": 3, "k": "b"},
                     {"op": "commit", "k": order[0]}, {"op": "commit", "k": order[1]}]
        out.append(("single", 2, ops))
        ops = pre + [{"op": "craft", "s": "N2", "t": "t1", "l": 1, "r": 1, "w": 1, "id": 2},
                     {"op": "dpre", "n": "N1", "v": 2, "k": "a"}, {"op": "dpre", "n": "N1", "v": 2, "k": "b"},
                     {"op": "commit", "k": order[0]}, {"op": "commit", "k": order[1]}]
        out.append(("single", 2, ops))
    # proposal waiting at the lock while a tip it would build on is dropped / truncated
    out.append(("single", 1, pre + [P("N1", "t1", 2), P("N1", "t3", 3), {"op": "ppre", "n": "N1", "t": "t4", "k": "a"},
                                    {"op": "truncate", "n": "N1"}, {"op": "commit", "k": "a", "id": 4}]))
    # dropped overdraft tip: its transaction can be proposed again afterwards
    out.append(("single", 2, pre + [P("N1", "t1", 2), {"op": "craft", "s": "N2", "t": "t6", "l": 2, "r": 2, "w": 2, "id": 3},
                                    D("N1", 3), P("N1", "t3", 4), P("N1", "t3", 5), P("N1", "t6", 6), P("N1", "t2", 7)]))
    return out


def perms(xs, rng, limit):
    import itertools
    ps = list(itertools.permutations(xs))
    rng.shuffle(ps)
    return ps[:limit]


def fam_orphans(rng, nperm):
    """A valid history built on N1 reaches N2 in every order, with retry ticks and duplicates."""
    out = []
    hist = [G(), {"op": "load", "m": "N2", "n": "N1"}, P("N1", "t1", 2), P("N1", "t3", 3),
            {"op": "craft", "s": "N3", "t": "t5", "l": 2, "r": 3, "w": 3, "id": 4}, D("N1", 4), P("N1", "t4", 5),
            P("N1", "t2", 6)]
    vs = [2, 3, 4, 5, 6]
    for pm in perms(vs, rng, nperm):
        ops = list(hist)
        for v in pm:
            ops.append(D("N2", v))
            if rng.random() < 0.4:
                ops.append({"op": "tick", "n": "N2"})
            if rng.random() < 0.2:
                ops.append(D("N2", v))
        ops += [{"op": "tick", "n": "N2", "times": 40}]
        ops += [{"op": "compare", "n": "N1", "m": "N2"}]
        out.append(("twosingle", 2, ops))
    # retry bound: a vertex whose parent never arrives is retried 25 times and then dropped
    ops = [G(), {"op": "load", "m": "N2", "n": "N1"}, P("N1", "t1", 2), P("N1", "t3", 3), D("N2", 3),
           {"op": "tick", "n": "N2", "times": 30}, D("N2", 2), {"op": "tick", "n": "N2", "times": 3}, D("N2", 3),
           {"op": "compare", "n": "N1", "m": "N2"}]
    out.append(("twosingle", 2, ops))
    # endurance of the orphan buffer: 20 orphans retried to exhaustion (more than 500 pops), then a late
    # orphan must still be parked and is admitted once its parent arrives
    ops = [G(), {"op": "load", "m": "N2", "n": "N1"}, P("N1", "t1", 2)]
    for i in range(1, 21):
        ops.append({"op": "craft", "s": "N3", "t": "c%d" % i, "l": 2, "r": 2, "w": 2, "id": 2 + i})
        ops.append(D("N2", 2 + i))
    ops.append({"op": "tick", "n": "N2", "times": 540})
    ops += [{"op": "craft", "s": "N3", "t": "c21", "l": 2, "r": 2, "w": 2, "id": 23}, D("N2", 23), D("N2", 2),
            {"op": "tick", "n": "N2", "times": 3}, D("N1", 23), {"op": "compare", "n": "N1", "m": "N2"}]
    out.append(("twomany", 2, ops))
    if nperm > 100:
        # the real buffer bound: 500 orphans are parked, the 501st is refused; after the parent arrives all 500 are admitted
        ops = [G(), {"op": "load", "m": "N2", "n": "N1"}, P("N1", "t1", 2)]
        for i in range(1, 502):
            ops.append({"op": "craft", "s": "N3", "t": "c%d" % i, "l": 2, "r": 2, "w": 2, "id": 2 + i})
            ops.append(D("N2", 2 + i))
        ops += [D("N2", 2), {"op": "tick", "n": "N2", "times": 505}]
        out.append(("twobig", 2, ops))
    # vertices that were sealed minutes ago (a peer that was cut off) arrive child first: age plays no part
    ops = [G(), {"op": "load", "m": "N2", "n": "N1"}, P("N1", "t1", 2),
           {"op": "craft", "s": "N3", "t": "t3", "l": 2, "r": 2, "w": 2, "id": 3, "old": True},
           {"op": "craft", "s": "N3", "t": "t5", "l": 3, "r": 3, "w": 3, "id": 4, "old": True},
           {"op": "craft", "s": "N3", "t": "t2", "l": 4, "r": 4, "w": 4, "id": 5, "old": True},
           D("N2", 5), D("N2", 4), {"op": "tick", "n": "N2", "times": 2}, D("N2", 3), {"op": "tick", "n": "N2", "times": 2},
           D("N2", 2), {"op": "tick", "n": "N2", "times": 8}, D("N1", 3), D("N1", 4), D("N1", 5),
           {"op": "compare", "n": "N1", "m": "N2"}]
    out.append(("twosingle", 2, ops))
    # an invalid vertex (overdraft sealed by an untrusted node) parked and retried must not be built on
    ops = [G(), {"op": "load", "m": "N2", "n": "N1"}, P("N1", "t1", 2),
           {"op": "craft", "s": "N3", "t": "t6", "l": 2, "r": 2, "w": 2, "id": 3},
           {"op": "craft", "s": "N3", "t": "t5", "l": 3, "r": 3, "w": 3, "id": 4},
           D("N2", 4), D("N2", 3), {"op": "tick", "n": "N2"}, D("N2", 2), {"op": "tick", "n": "N2", "times": 4},
           P("N2", "t3", 5), {"op": "tick", "n": "N2", "times": 4}]
    out.append(("twosingle", 2, ops))
    return out


def fam_load(rng):
    """Ledgers of several shapes streamed into a fresh node, with follow-up traffic to both."""
    out = []
    follow = [{"op": "craft", "s": "N3", "t": "t5", "l": 3, "r": 3, "w": 3, "id": 7}, D("N1", 7), D("N2", 7),
              {"op": "compare", "n": "N1", "m": "N2"}]
    shapes = [
        [G(), P("N1", "t1", 2), P("N1", "t3", 3)],
        [G(), P("N1", "t1", 2), {"op": "craft", "s": "N3", "t": "t3", "l": 2, "r": 2, "w": 2, "id": 3}, D("N1", 3),
         {"op": "craft", "s": "N3", "t": "t2", "l": 2, "r": 2, "w": 2, "id": 4}, D("N1", 4)],
        [G()],
    ]
    for s in shapes:
        ops = s + [{"op": "load", "m": "N2", "n": "N1"}]
        if len(s) > 2:
            ops += follow
        else:
            ops += [{"op": "compare", "n": "N1", "m": "N2"}]
        out.append(("twosingle", 2, ops))
    # single corruptions of the stream
    for kind in ("dupvertex", "dropvertex"):
        for cut in range(0, 3):
            out.append(("twosingle", 2, shapes[0] + [{"op": "load", "m": "N2", "n": "N1", "kind": kind, "cut": cut}]))
    out.append(("twosingle", 2, shapes[0] + [{"op": "craft", "s": "N3", "t": "t1", "l": 1, "r": 1, "w": 1, "id": 4},
                                             {"op": "load", "m": "N2", "n": "N1", "kind": "extra", "v": 4}]))
    # a stream that carries a second self-sealed vertex / an empty transaction is refused
    for sealer, t in (("A", "t3"), ("GR", "t2"), ("B", "t5")):
        out.append(("twosingle", 2, shapes[0] + [{"op": "craft", "s": sealer, "t": t, "l": 2, "r": 3, "w": 3, "id": 4},
                                                 {"op": "load", "m": "N2", "n": "N1", "kind": "extra", "v": 4}]))
    out.append(("tworules", 2, [G(), P("N1", "t1", 2), {"op": "craft", "s": "N3", "t": "t9", "l": 2, "r": 2, "w": 2, "id": 3},
                                {"op": "load", "m": "N2", "n": "N1", "kind": "extra", "v": 3}]))
    # a stream that consists of one forged root: self-sealed, with an empty / a non-canonical / an ordinary transaction
    for t, sealer in (("t9", "A"), ("t10", "A"), ("t7", "N2"), ("t5", "B")):
        out.append(("tworules", 2, [G(), {"op": "craft", "s": sealer, "t": t, "l": 0, "r": 0, "w": 1, "id": 2},
                                    {"op": "load", "m": "N2", "n": "N1", "kind": "only", "v": 2},
                                    {"op": "load", "m": "N2", "n": "N1"}]))
    # the sealing rules hold on a node that obtained its ledger by syncing
    out.append(("tworules", 2, [G(), P("N1", "t1", 2), {"op": "load", "m": "N2", "n": "N1"}, P("N2", "t8", 3), P("N2", "t7", 4),
                                P("N2", "t9", 5), P("N2", "t5", 6), P("N1", "t7", 7), D("N1", 6), D("N2", 7),
                                {"op": "craft", "s": "N3", "t": "t8", "l": 2, "r": 2, "w": 2, "id": 8}, D("N2", 8),
                                {"op": "craft", "s": "N2", "t": "t7", "l": 2, "r": 2, "w": 2, "id": 9}, D("N2", 9), D("N1", 9)]))
    # a gossiped vertex and a proposal that arrive while the stream is still coming in (also issued by the genesis wallet)
    for t, v in (("t3", 3), ("t2", 2), ("t1", 3)):
        out.append(("twosingle", 2, shapes[1] + [{"op": "load", "m": "N2", "n": "N1", "kind": "during", "v": v, "t": t},
                                                 {"op": "compare", "n": "N1", "m": "N2"}, D("N2", v), P("N2", t, 0)]))
    # loading twice
    out.append(("twosingle", 2, shapes[0] + [{"op": "load", "m": "N2", "n": "N1"}, {"op": "load", "m": "N2", "n": "N1"}]))
    # source that has truncated
    out.append(("twosingle", 1, shapes[0] + [P("N1", "t4", 4), {"op": "truncate", "n": "N1"}, {"op": "load", "m": "N2", "n": "N1"}]))
    return out


def fam_doublespend(rng):
    """Conflicting spends of the same funds through two nodes, merged by a later vertex."""
    out = []
    ops = [G(), {"op": "load", "m": "N2", "n": "N1"}, P("N1", "t1", 2), P("N2", "t2", 3), D("N2", 2), D("N1", 3),
           P("N1", "t3", 4), D("N2", 4), P("N2", "t3", 5)]
    out.append(("two", 2, ops))
    # on one node the second spend is refused
    out.append(("two", 2, [G(), P("N1", "t1", 2), P("N1", "t2", 3), P("N1", "t3", 4), P("N1", "t2", 5)]))
    return out


def fam_rules(rng):
    out = []
    ops = [G(), P("N1", "t1", 2), P("N1", "t7", 3), P("N1", "t8", 4), P("N1", "t9", 5), P("N1", "t5", 6),
           {"op": "craft", "s": "N2", "t": "t7", "l": 2, "r": 2, "w": 2, "id": 7}, D("N1", 7),
           {"op": "craft", "s": "N2", "t": "t8", "l": 2, "r": 2, "w": 2, "id": 8}, D("N1", 8),
           {"op": "craft", "s": "N2", "t": "t9", "l": 2, "r": 2, "w": 2, "id": 9}, D("N1", 9),
           {"op": "craft", "s": "N1", "t": "t8", "l": 2, "r": 2, "w": 2, "id": 10}, D("N1", 10),
           {"op": "craft", "s": "N2", "t": "t5", "l": 3, "r": 3, "w": 3, "id": 11}, D("N1", 11), D("N1", 7),
           {"op": "tick", "n": "N1", "times": 3}]
    out.append(("rules", 2, ops))
    # the same offers when the node TRUSTS the sealing node: trust exempts from the accounting test, not from the rules
    T, U = {"op": "trust", "n": "N1", "a": "N2"}, {"op": "untrust", "n": "N1", "a": "N2"}
    trusted = [G(), P("N1", "t1", 2), T,
               {"op": "craft", "s": "N2", "t": "t7", "l": 2, "r": 2, "w": 2, "id": 3}, D("N1", 3),      # sealed by its own issuer
               {"op": "craft", "s": "N2", "t": "t9", "l": 2, "r": 2, "w": 2, "id": 4}, D("N1", 4),      # neither data nor spice
               {"op": "craft", "s": "N2", "t": "t10", "l": 2, "r": 2, "w": 2, "id": 5}, D("N1", 5),     # not canonical
               {"op": "craft", "s": "N2", "t": "t8", "l": 2, "r": 2, "w": 2, "id": 6}, D("N1", 6),      # issued by the node's own wallet
               {"op": "craft", "s": "N2", "t": "t5", "l": 2, "r": 2, "w": 2, "id": 7}, D("N1", 7),      # an ordinary contract: admitted
               {"op": "craft", "s": "N2", "t": "t7", "l": 7, "r": 7, "w": 3, "id": 8},
               {"op": "craft", "s": "N2", "t": "t9", "l": 8, "r": 8, "w": 4, "id": 9}, D("N1", 9), D("N1", 8),   # through the orphan path
               {"op": "tick", "n": "N1", "times": 3}, U, D("N1", 3), D("N1", 4), P("N1", "t9", 10), P("N1", "t5", 10)]
    out.append(("rules", 2, trusted))
    # genesis naming its own issuer as receiver is refused and leaves the node unloaded
    out.append(("rules-selfgenesis", 2, [G(), P("N1", "t1", 2), P("N1", "t5", 3)]))
    return out


def fam_canon(rng):
    """Amounts that are not canonical offered through every way into the ledger."""
    out = []
    out.append(("rules", 2, [G(), P("N1", "t1", 2), P("N1", "t10", 3),
                             {"op": "craft", "s": "N2", "t": "t10", "l": 2, "r": 2, "w": 2, "id": 4}, D("N1", 4),
                             {"op": "craft", "s": "N2", "t": "t10", "l": 1, "r": 4, "w": 3, "id": 5}, D("N1", 5),
                             {"op": "tick", "n": "N1", "times": 2}, P("N1", "t5", 6)]))
    out.append(("tworules", 2, [G(), P("N1", "t1", 2), {"op": "craft", "s": "N3", "t": "t10", "l": 2, "r": 2, "w": 2, "id": 3},
                                {"op": "load", "m": "N2", "n": "N1", "kind": "extra", "v": 3}]))
    out.append(("tworules", 2, [G(), P("N1", "t1", 2), {"op": "load", "m": "N2", "n": "N1"}, P("N2", "t10", 3),
                                {"op": "craft", "s": "N3", "t": "t10", "l": 2, "r": 2, "w": 2, "id": 4}, D("N2", 4), D("N1", 4)]))
    return out


# ------------------------------------------------------------------------------------------
# property table

ALL_EVENTS = ["History", "BalanceRaced", "Reset", "Genesis", "ProposePre", "ProposeCommit", "Craft", "DeliverPre", "DeliverCommit",
              "TickPop", "Truncate", "Trust", "Untrust", "Balance", "ReadTrx", "ReadVertex", "Load", "Compare",
              "Wedged"]

PROPS = {
    "C01": dict(strict=["ProposeCommit", "DeliverCommit", "Truncate", "Wedged"],
                inv=["TypeOK"], prop=["C01_NoOverdraftConfirmed", "C01_OnlyTipsDropped", "C03_Reproposable"],
                gens=[("single", 1.0)], fams=["truncation", "concurrent", "weights", "cancel", "revoked", "selfmint"], mc="single"),
    "C02": dict(strict=["Wedged"], inv=["C02_ModuloF10"], prop=[],
                gens=[("two", 0.5), ("twosingle", 0.3), ("drain", 0.2)], fams=["doublespend", "truncation", "revoked_valid", "selfmint"], mc="two"),
    "C03": dict(strict=["ProposePre", "ProposeCommit", "DeliverPre", "DeliverCommit", "TickPop", "Wedged"],
                inv=["C03_UniqueTrx", "C03_IndexExact", "TypeOK"], prop=["C03_Reproposable"],
                gens=[("single", 0.7), ("twosingle", 0.3)], fams=["concurrent", "truncation", "forged", "load"], mc="single"),
    "C06": dict(strict=["Balance", "Wedged"], inv=[], prop=[],
                gens=[("single", 0.4), ("drain", 0.3), ("twosingle", 0.3)], fams=["truncation", "load", "selfmint"], mc="single"),
    "C07": dict(strict=["Truncate", "TruncateCancelled", "ReadTrx", "ReadVertex", "ProposePre", "DeliverPre", "Balance", "Wedged"],
                inv=["ReadsOK", "C03_UniqueTrx"], prop=["C07_T"],
                gens=[("single", 0.5), ("drain", 0.5)], fams=["truncation", "trunc_retry"], mc="single"),
    "C09": dict(strict=["ProposeCommit", "Genesis", "Wedged"],
                inv=["C09_WellFormed", "SelfAuthentic", "ViewConsistent", "TypeOK"], prop=["C09_LocalCreate"],
                gens=[("single", 0.6), ("twosingle", 0.4)], fams=["truncation", "concurrent", "load", "forged", "cancel"], mc="single"),
    "C10": dict(strict=["ProposePre", "DeliverPre", "Genesis", "TickPop", "Load", "Wedged"],
                inv=["C10_SealingRules"], prop=[],
                gens=[("rules", 0.7), ("twosingle", 0.3)], fams=["rules", "load"], mc="rules"),
    "C05": dict(strict=["ProposePre", "DeliverPre", "Load", "Wedged"], inv=["C05_CanonicalOnly"], prop=[],
                gens=[("rules", 0.6), ("tworules", 0.4)], fams=["canon", "rules", "load", "truncation"], mc="rules"),
    "C13": dict(strict=["DeliverPre", "DeliverCommit", "TickPop", "Compare", "Wedged"],
                inv=["C03_UniqueTrx", "TypeOK"], prop=["C01_NoOverdraftConfirmed"],
                gens=[("twosingle", 1.0)], fams=["orphans", "forged"], mc="two"),
    "C14": dict(strict=["Load", "Compare", "Wedged"], inv=[], prop=["C14_T"],
                gens=[("twosingle", 1.0)], fams=["load"], mc="two"),
}

# Every event that changes a book is judged for conformance in the check of every ledger property: the recorded state
# is adopted after each event, so a state change that the specification does not allow and that is not judged would
# silently become the reference for everything evaluated afterwards (a wrong checkpoint written by a truncation would be
# the "checkpointed funds" the balance reads of C06 are compared with).
CORE_STRICT = ["Genesis", "TickPop", "ProposeCommit", "DeliverCommit", "Truncate", "TruncateCancelled", "Load", "Trust", "Untrust", "Wedged"]
for _p in PROPS.values():
    _p["strict"] = sorted(set(_p["strict"]) | set(CORE_STRICT))

FAMS = {
    "truncation": lambda rng, tier: fam_truncation(rng) + fam_drain(rng) + fam_stale(rng) + fam_trunc_race(rng) + fam_trunc_cancel(rng),
    "concurrent": lambda rng, tier: fam_concurrent(rng),
    "orphans": lambda rng, tier: fam_orphans(rng, 120 if tier == "thorough" else 30),
    "load": lambda rng, tier: fam_load(rng) + [(sh, d, [dict(o, op="netload") if o["op"] == "load" else o for o in ops])
                                               for sh, d, ops in fam_load(rng)],
    "doublespend": lambda rng, tier: fam_doublespend(rng),
    "rules": lambda rng, tier: fam_rules(rng),
    "canon": lambda rng, tier: fam_canon(rng),
    "weights": lambda rng, tier: fam_weights(rng),
    "cancel": lambda rng, tier: fam_cancel(rng),
    "forged": lambda rng, tier: fam_forged(rng),
    "revoked": lambda rng, tier: fam_revoked(rng),
    "selfmint": lambda rng, tier: fam_selfmint(rng),
    # for C02: only the behaviours in which nothing invalid is confirmed under the exemption
    "revoked_valid": lambda rng, tier: fam_revoked(rng)[::2],
    "trunc_retry": lambda rng, tier: fam_trunc_retry(rng),
}

MC_CONFIGS = {
    # name: quick constants, thorough constants
    "single": (dict(shape="single", maxv=4, inflight=2, maxcraft=1, toggle=1),
               dict(shape="single", maxv=5, inflight=2, maxcraft=1, toggle=1)),
    "rules": (dict(shape="rules", maxv=4, inflight=1, maxcraft=2, toggle=0),
              dict(shape="rules", maxv=5, inflight=1, maxcraft=2, toggle=0)),
    "two": (dict(shape="two", maxv=4, inflight=1, maxcraft=0, toggle=0),
            dict(shape="two", maxv=5, inflight=1, maxcraft=0, toggle=0)),
}


# ------------------------------------------------------------------------------------------
# DRIVE + TRACE

def drive(wd, drivebin, groups):
    """groups: {key: [behaviour, ...]} with equal constants per key. Returns {key: tracefile}."""
    cmds, files = [], {}
    for key, bs in groups.items():
        bf = os.path.join(wd, "beh_%s.ndjson" % key)
        tf = os.path.join(wd, "trace_%s.ndjson" % key)
        with open(bf, "w") as f:
            for b in bs:
                f.write(json.dumps(b) + "\n")
        d = os.path.join(wd, "cwd_%s" % key)
        os.makedirs(d, exist_ok=True)
        cmds.append((key, [drivebin, "ledger", bf, tf], d))
        files[key] = tf
    # at most NCPU driver processes at a time (every book holds three in-memory badger stores)
    pending = list(cmds)
    running = []
    while pending or running:
        while pending and len(running) < NCPU:
            key, c, d = pending.pop(0)
            running.append((key, subprocess.Popen(c, cwd=d, stdout=subprocess.DEVNULL, stderr=open(os.path.join(d, "stderr.log"), "w"),
                                                  text=True, env=dict(os.environ, GOTRACEBACK="all", GOMEMLIMIT=os.environ.get("GOMEMLIMIT", "1GiB"))), time.time()))
        still = []
        for key, p, t0 in running:
            if p.poll() is None:
                if time.time() - t0 > 1800:
                    p.kill()
                    raise Inconclusive("driver timed out on group %s" % key)
                still.append((key, p, t0))
                continue
            if p.returncode != 0:
                why = [l.rstrip() for l in open(os.path.join(wd, "cwd_%s" % key, "stderr.log"), errors="replace")
                       if not l.startswith(("badger ", "Level ")) and l.strip()]
                raise Inconclusive("driver failed on group %s (rc=%s): %s" % (key, p.returncode, " | ".join(why[:12])[:1500]))
        running = still
        if running:
            time.sleep(0.1)
    return files


def validate(wd, key, tracefile, spec, timeout=1500):
    """One TLC run over one trace file. Returns dict(violation, fail, pos, stats)."""
    d = os.path.join(wd, "tv_%s" % key)
    os.makedirs(d, exist_ok=True)
    copy_specs(d, ["Ledger.tla", "LedgerTrace.tla"])
    os.replace(tracefile, os.path.join(d, "trace.ndjson"))
    const = {"Node": "<- TNode", "Wallet": "<- TWallet", "GR": "<- TGR", "Supply": "<- TSupply", "InitThr": "50",
             "TruncDepth": "<- TTruncDepth", "MaxParked": "500", "MaxRepeats": "25", "TraceFile": '"trace.ndjson"',
             "Strict": tla_set(spec["strict"])}
    const.update(CODE_MODEL)
    cfg = os.path.join(d, "LedgerTrace.cfg")
    write_cfg(cfg, "TSpec", const, spec["inv"] + ["Conforms"], spec["prop"], postcondition="Accepted")
    return d, cfg


def parse_validation(out, rc, nevents):
    fail = tlc_failed(out, rc)
    viol = tlc_violation(out)
    pos = None
    if viol:
        ps = re.findall(r"/\\ pos = (\d+)", out)
        if ps:
            pos = max(1, int(ps[-1]) - 1)
    st = tlc_stats(out)
    accepted = st is not None and st["distinct"] == nevents + 1 and not viol and not fail
    if not viol and not fail and "Postcondition" in out and "violated" in out:
        fail = "trace not consumed"
    return dict(fail=fail, violation=viol, pos=pos, stats=st, accepted=accepted)


TRX["valid"] = [
    {"id": "t1", "iss": "GR", "rcv": "A", "amt": 2, "data": False},
    {"id": "t2", "iss": "GR", "rcv": "B", "amt": 2, "data": False},
    {"id": "t3", "iss": "A", "rcv": "B", "amt": 1, "data": False},
    {"id": "t4", "iss": "A", "rcv": "A", "amt": 1, "data": False},
    {"id": "t5", "iss": "B", "rcv": "A", "amt": 0, "data": True},
    {"id": "t6", "iss": "B", "rcv": "A", "amt": 1, "data": False},
]
SHAPES["twovalid"] = (["N1", "N2"], ["N1", "N2", "N3", "GR", "A", "B"], ["N3"], "valid")
# every wallet is drained to exactly zero at some point (checkpoint entries must follow it down to zero)
TRX["drain"] = [
    {"id": "t1", "iss": "GR", "rcv": "A", "amt": 10, "data": False},
    {"id": "t2", "iss": "A", "rcv": "B", "amt": 10, "data": False},
    {"id": "t3", "iss": "B", "rcv": "A", "amt": 4, "data": False},
    {"id": "t4", "iss": "A", "rcv": "A", "amt": 3, "data": False},
    {"id": "t5", "iss": "B", "rcv": "A", "amt": 0, "data": True},
    {"id": "t6", "iss": "A", "rcv": "B", "amt": 4, "data": False},
]
SHAPES["drain"] = (["N1"], ["N1", "N2", "GR", "A", "B"], ["N2"], "drain")
SHAPES["tworules"] = (["N1", "N2"], ["N1", "N2", "N3", "GR", "A", "B"], ["N3"], "rules")
TRX["many"] = [{"id": "c%d" % i, "iss": "A", "rcv": "B", "amt": 0, "data": True} for i in range(1, 25)] + \
              [{"id": "t1", "iss": "GR", "rcv": "A", "amt": 6, "data": False}]
TRX["big"] = [{"id": "c%d" % i, "iss": "A", "rcv": "B", "amt": 0, "data": True} for i in range(1, 503)] + \
             [{"id": "t1", "iss": "GR", "rcv": "A", "amt": 6, "data": False}]
SHAPES["twobig"] = (["N1", "N2"], ["N1", "N2", "N3", "GR", "A", "B"], ["N3"], "big")
SHAPES["twomany"] = (["N1", "N2"], ["N1", "N2", "N3", "GR", "A", "B"], ["N3"], "many")

# known findings: (finding id, property, modulo invariant replaces strict invariant, witness family index)
KNOWN = {
    "C02": [dict(id="F10", strict="C02_NoOverdraftUnion", modulo="C02_ModuloF10",
                 what="cross-branch double spend: two individually valid tips spending the same funds are both "
                      "confirmed by a vertex that merges them",
                 witness=lambda rng: fam_doublespend(rng)[0])],
}


def make_behaviours(prop, tier, rng, wd):
    spec = PROPS[prop]
    nsim = {"quick": 160, "thorough": 1600}[tier]
    depth = {"quick": 26, "thorough": 34}[tier]
    res = []  # (shape, trunc, ops, origin)
    sd = rng.randint(1, 10 ** 6)
    for shape, frac in spec["gens"]:
        n = max(4, int(nsim * frac))
        for trunc in (1, 2):
            maxv = 9 if tier == "quick" else 11
            # C02 is stated for ledgers none of whose confirmed vertices was sealed under the trusted-node exemption:
            # its behaviours never trust a sealing node (a vertex confirmed while its sealer was trusted would be
            # judged as if it had been accounted for)
            bs = simulate(wd, shape, n // 2, depth, sd + trunc, trunc=trunc, maxv=maxv,
                          jump="{}" if rng.random() < 0.5 else "{70}", toggle=0 if prop == "C02" else 2)
            for ops in bs:
                res.append((shape, trunc, ops, "simulate:%s" % shape))
    for fam in spec["fams"]:
        for shape, trunc, ops in FAMS[fam](rng, tier):
            res.append((shape, trunc, ops, "family:" + fam))
            if fam == "truncation" and shape == "drain":
                # the same behaviour with amounts near the top of the 64 bit currency part: no wallet's sums overflow,
                # the sum over ALL wallets of what one truncation moves does (nothing in the code may depend on it)
                res.append((shape, trunc, ops, "family:%s:huge" % fam))
    return res


def package(prop, raw, rng, heavy=True):
    """Turn raw op lists into behaviours with constants, amount binding and observation ops."""
    out = []
    for i, (shape, trunc, ops, origin) in enumerate(raw):
        unit = UNITS[rng.randrange(len(UNITS))]
        if origin.endswith(":huge"):
            unit = [1000000000000000000, 0]
        cfg = cfg_of(shape, trunc, unit)
        big = shape == "twobig"
        out.append({"id": "%s-%d" % (prop, i), "origin": origin, "cfg": cfg,
                    "ops": enrich(rng, cfg, ops, density=0.0 if big else 0.5, heavy=heavy and not big)})
    return out


def group(behaviours, nchunks):
    by = {}
    for b in behaviours:
        k = (tuple(b["cfg"]["nodes"]), tuple(b["cfg"]["wallets"]), b["cfg"]["truncDepth"], b["cfg"]["gr"])
        by.setdefault(k, []).append(b)
    groups = {}
    total = len(behaviours)
    gi = 0
    for k, bs in by.items():
        parts = max(1, round(nchunks * len(bs) / max(1, total)))
        for j in range(parts):
            chunk = bs[j::parts]
            if chunk:
                groups["g%d" % gi] = chunk
                gi += 1
    return groups


def count_events(path):
    n = 0
    acts = {}
    ids = []
    with open(path) as f:
        for line in f:
            n += 1
            m = re.match(r'\{"a":"([A-Za-z]+)"', line)
            if m:
                acts[m.group(1)] = acts.get(m.group(1), 0) + 1
                if m.group(1) == "Reset":
                    ids.append((n, json.loads(line)["id"]))
    return n, acts, ids


def run_validation(wd, groups, files, spec, timeout):
    """Validate every trace file; returns list of per-group results."""
    jobs = []
    info = {}
    for key, tf in files.items():
        n, acts, ids = count_events(tf)
        d, cfg = validate(wd, key, tf, spec)
        info[key] = dict(events=n, acts=acts, ids=ids, dir=d)
        jobs.append((key, d, cfg))
    results = {}
    # run up to NCPU JVMs at a time
    pending = list(jobs)
    running = []
    import subprocess as sp
    from common import TLC_CP
    deadline = time.time() + timeout
    while pending or running:
        while pending and len(running) < max(2, NCPU - 2):
            key, d, cfg = pending.pop(0)
            meta = os.path.join(d, "meta")
            cmd = ["java", "-XX:+UseParallelGC", "-Xss64m", "-Xmx2g", "-cp", TLC_CP, "tlc2.TLC", "-workers", "1",
                   "-metadir", meta, "-config", cfg, "LedgerTrace.tla"]
            fo = open(os.path.join(d, "tlc.out"), "w")
            running.append((key, sp.Popen(cmd, cwd=d, stdout=fo, stderr=sp.STDOUT, text=True)))
        still = []
        for key, p in running:
            if p.poll() is None:
                if time.time() > deadline:
                    p.kill()
                    p.wait()
                    results[key] = dict(fail="timeout", violation=None, pos=None, stats=None, accepted=False)
                else:
                    still.append((key, p))
                continue
            out = open(os.path.join(info[key]["dir"], "tlc.out")).read()
            results[key] = parse_validation(out, p.returncode, info[key]["events"])
        running = still
        if running:
            time.sleep(0.2)
    for key in results:
        results[key].update(info[key])
    return results


def behaviour_at(res, pos):
    """Id of the behaviour that contains event number pos."""
    bid = None
    for line, i in res["ids"]:
        if line <= pos:
            bid = i
    return bid


def event_line(res, pos):
    with open(os.path.join(res["dir"], "trace.ndjson")) as f:
        for i, line in enumerate(f, 1):
            if i == pos:
                return line.strip()
    return None


def check(prop, tier, finish=True):
    t0 = time.time()
    sd = seed()
    rng = random.Random(sd * 7919 + hash(prop) % 1000)
    spec = dict(PROPS[prop])
    wd = rundir("%s-%s" % (prop, tier))
    drivebin = build_harness(into=wd)

    # --- MC (design level) ---
    mcq, mct = MC_CONFIGS[spec["mc"]]
    mcc = mct if tier == "thorough" else mcq
    inv = list(MC_INV) + (["C02_ModuloF10"] if prop == "C02" else [])
    runs = [("mc", mcc)]
    if tier == "thorough" and spec["mc"] == "single":
        # the same universe at the quick bound with callers that go away while tips are validated
        runs.append(("mc_cancel", dict(mcq, cancel=True)))
    for name, cfg in runs:
        mc1 = run_mc(wd, name, mc_constants(**cfg), inv, MC_PROP, workers=max(2, NCPU // 2),
                     timeout=240 if tier == "quick" else 3000)
        if mc1["fail"]:
            raise Inconclusive("bounded model run failed: %s (see %s)" % (mc1["fail"], wd))
        if mc1["violation"]:
            raise Inconclusive("the bounded model itself violates %s - a defect of the specification, not evidence "
                               "about the code (see %s/%s.out)" % (mc1["violation"], wd, name))
        log("[mc] %s%s: %s in %.0fs" % (spec["mc"], " +cancel" if cfg.get("cancel") else "", mc1["stats"], mc1["wall"]))
        if name == "mc":
            mc = mc1

    # --- GEN ---
    raw = make_behaviours(prop, tier, rng, wd)
    behaviours = package(prop, raw, rng)
    byid = {b["id"]: b for b in behaviours}
    log("[gen] %d behaviours" % len(behaviours))

    # --- DRIVE + TRACE ---
    inv_names = list(spec["inv"])
    for k in KNOWN.get(prop, []):
        inv_names = [k["modulo"] if x == k["strict"] else x for x in inv_names]
        if k["modulo"] not in inv_names:
            inv_names.append(k["modulo"])
    vspec = dict(strict=spec["strict"], inv=inv_names, prop=spec["prop"])
    violations = []
    totals = dict(events=0, acts={}, traces=0, states=0)
    todo = behaviours
    for round_ in range(6):
        groups = group(todo, max(NCPU, (len(todo) + 119) // 120))
        files = drive(wd, drivebin, groups)
        results = run_validation(wd, groups, files, vspec, timeout=600 if tier == "quick" else 3000)
        again = []
        for key, r in results.items():
            if r["fail"]:
                raise Inconclusive("trace validation of group %s failed: %s (see %s)" % (key, r["fail"], r["dir"]))
            if round_ == 0 or True:
                totals["events"] += r["events"] if not r["violation"] else (r["pos"] or 0)
            for a, c in r["acts"].items():
                totals["acts"][a] = totals["acts"].get(a, 0) + c
            if r["violation"]:
                bid = behaviour_at(r, r["pos"] or 1)
                ev = event_line(r, r["pos"] or 1)
                violations.append(dict(behaviour=byid[bid], what=r["violation"], event=ev, pos=r["pos"]))
                # everything but the violating behaviour of this group is validated again
                again += [b for b in groups[key] if b["id"] != bid]
            else:
                totals["traces"] += len(groups[key])
                totals["states"] += r["stats"]["distinct"] if r["stats"] else 0
        if not again:
            break
        todo = again
        if len(violations) >= 5:
            break

    # a wedge verdict (an operation that did not return within the bound) is executed once more before it is reported:
    # if it does not reproduce it was load on the machine, and the run is inconclusive about that behaviour
    confirmed = []
    for v in violations:
        if v["event"] and '"a":"Wedged"' in v["event"].replace(" ", ""):
            files = drive(wd, drivebin, {"wedge": [v["behaviour"]]})
            rs = run_validation(wd, {"wedge": [v["behaviour"]]}, files, vspec, timeout=600)
            if not rs["wedge"]["violation"]:
                log("[inconclusive] a wedge in behaviour %s did not reproduce; not reported" % v["behaviour"]["id"])
                continue
        confirmed.append(v)
    violations = confirmed

    # --- known findings: replay the witnesses against the strict invariant ---
    for k in KNOWN.get(prop, []):
        shape, trunc, ops = k["witness"](rng)
        wb = package(prop + "-" + k["id"], [(shape, trunc, ops, "witness:" + k["id"])], rng, heavy=False)
        files = drive(wd, drivebin, {"kf": wb})
        sspec = dict(strict=["Wedged"], inv=[k["strict"]], prop=[])
        rs = run_validation(wd, {"kf": wb}, files, sspec, timeout=300)
        r = rs["kf"]
        if r["fail"]:
            raise Inconclusive("known-finding witness %s could not be evaluated: %s" % (k["id"], r["fail"]))
        if r["violation"] == k["strict"]:
            print("KNOWN-FINDING: property=%s %s (%s; witness replayed on this tree, recorded state violates %s and "
                  "matches the signature)" % (prop, k["what"], k["id"], k["strict"]), flush=True)

    wall = time.time() - t0
    samples = [{"origin": b["origin"], "ops": b["ops"][:14]} for b in behaviours[:2]]
    fams = {}
    for b in behaviours:
        fams[b["origin"]] = fams.get(b["origin"], 0) + 1
    cov = {"states": mc["stats"]["distinct"], "transitions": mc["stats"]["generated"],
           "traces_validated_against_impl": totals["traces"], "samples": samples,
           "mc_config": mc["constants"], "mc_invariants": inv, "mc_properties": MC_PROP, "mc_wall_s": round(mc["wall"], 1),
           "events_validated": totals["events"], "events_by_action": totals["acts"],
           "behaviours_by_origin": fams, "trace_states": totals["states"],
           "trace_invariants": vspec["inv"] + ["Conforms"], "trace_step_properties": vspec["prop"],
           "conformance_checked_for": spec["strict"], "code_model": CODE_MODEL,
           "explanation": "states/transitions: bounded exhaustive TLC run of LedgerMC; traces: behaviours executed on "
                          "real AccountingBooks and validated by TLC against LedgerTrace.tla"}
    if not finish:
        return cov, violations
    write_evidence(prop, tier, "model_checking", cov, wall, len(violations),
                   ["projection and driver code in /verif/harness", "TLC", "crypto/ed25519 and sha256",
                    "background loops of the book are driven synchronously through the verif hooks"])
    if violations:
        for i, v in enumerate(violations):
            path = save_replay(prop, "%s-%d" % (tier, i), v)
            print("VIOLATION property=%s replay=%s" % (prop, path), flush=True)
            log("  %s at event %s of behaviour %s: %s" % (v["what"], v["pos"], v["behaviour"]["id"], (v["event"] or "")[:300]))
        return 1
    log("[ok] %s %s: %d behaviours, %d events, %.0fs" % (prop, tier, totals["traces"], totals["events"], wall))
    return 0


def replay(prop, path):
    """Re-execute the behaviour of a replay file on the current tree and validate it again."""
    v = json.load(open(path))
    b = v["behaviour"]
    wd = rundir("%s-replay" % prop)
    drivebin = build_harness(into=wd)
    spec = PROPS[prop]
    files = drive(wd, drivebin, {"r": [b]})
    rs = run_validation(wd, {"r": [b]}, files, dict(strict=spec["strict"], inv=spec["inv"], prop=spec["prop"]), 300)
    r = rs["r"]
    if r["fail"]:
        raise Inconclusive(r["fail"])
    if r["violation"]:
        print("VIOLATION property=%s replay=%s" % (prop, path), flush=True)
        log("  %s at event %s: %s" % (r["violation"], r["pos"], (event_line(r, r["pos"] or 1) or "")[:300]))
        return 1
    log("replay: behaviour accepted")
    return 0
