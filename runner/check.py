#!/usr/bin/env python3
"""Entry point: ./check <Cxx> <quick|thorough> [--replay path] | ./check setup"""
import os
import sys
import traceback

sys.path.insert(0, os.path.dirname(os.path.abspath(__file__)))
import common  # noqa: E402

LEDGER = {"C01", "C02", "C03", "C06", "C07", "C09", "C10", "C13", "C14"}


def main(argv):
    if len(argv) >= 1 and argv[0] == "setup":
        import setup
        return setup.main()
    if len(argv) < 2:
        print("usage: check <property> <quick|thorough> [--replay path]", file=sys.stderr)
        return 2
    prop, tier = argv[0], argv[1]
    os.environ["VERIF_TIER"] = tier
    rp = None
    if "--replay" in argv:
        rp = argv[argv.index("--replay") + 1]
    try:
        if prop in LEDGER:
            import ledger
            return ledger.replay(prop, rp) if rp else ledger.check(prop, tier)
        if prop == "C05":
            import spice
            return spice.replay(prop, rp) if rp else spice.check(prop, tier)
        if prop == "C17":
            import cachechk
            return cachechk.replay(prop, rp) if rp else cachechk.check(prop, tier)
        if prop == "C20":
            import filechk
            return filechk.replay(prop, rp) if rp else filechk.check(prop, tier)
        if prop in ("C11", "C12"):
            import gossipchk
            return gossipchk.replay(prop, rp) if rp else gossipchk.check(prop, tier)
        if prop == "C16":
            import notarychk
            return notarychk.replay(prop, rp) if rp else notarychk.check(prop, tier)
        if prop == "C15":
            import shapeschk
            return shapeschk.replay(prop, rp) if rp else shapeschk.check(prop, tier)
        if prop == "C04":
            import sealchk
            return sealchk.replay(prop, rp) if rp else sealchk.check(prop, tier)
        if prop == "C18":
            import racechk
            return racechk.replay(prop, rp) if rp else racechk.check(prop, tier)
        if prop == "M01":
            import memberchk
            return memberchk.replay(prop, rp) if rp else memberchk.check(prop, tier)
        if prop == "B01":
            import balancechk
            return balancechk.replay(prop, rp) if rp else balancechk.check(prop, tier)
        if prop == "W01":
            import webhookchk
            return webhookchk.replay(prop, rp) if rp else webhookchk.check(prop, tier)
        if prop == "C08":
            import locks
            return locks.replay(prop, rp) if rp else locks.check(prop, tier)
        print("unknown property " + prop, file=sys.stderr)
        return 2
    except common.Inconclusive as e:
        print("INCONCLUSIVE property=%s: %s" % (prop, e), file=sys.stderr)
        return 2
    except Exception:
        traceback.print_exc()
        return 2


def reap():
    """Kill every process this check started and left behind (a driver that wedged, a TLC run that outlived a timeout)."""
    me = os.getpid()
    parent = {}
    for d in os.listdir("/proc"):
        if d.isdigit():
            try:
                f = open("/proc/%s/stat" % d).read()
                parent[int(d)] = int(f[f.rindex(")") + 2:].split()[1])
            except Exception:
                pass
    todo, victims = [me], []
    while todo:
        x = todo.pop()
        for c, pp in parent.items():
            if pp == x and c != me:
                victims.append(c)
                todo.append(c)
    for v in victims:
        try:
            os.kill(v, 9)
        except Exception:
            pass


def on_term(signum, frame):
    reap()
    os._exit(2)


if __name__ == "__main__":
    import signal
    signal.signal(signal.SIGTERM, on_term)
    rc = 2
    try:
        rc = main(sys.argv[1:])
    finally:
        sys.stdout.flush()
        sys.stderr.flush()
        reap()
    sys.exit(rc)
