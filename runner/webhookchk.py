"""Webhook subscriptions (Webhooks.tla): bounded model checking, behaviours on the real webhooks.Service behind the real
webhooksserver handler with HTTP endpoints on loopback ports, TLC trace validation.  Not one of the listed properties on
its own: `./check W01 <tier>` runs it, and the C15 check uses it as the state a rejected Webhooks request must leave
unchanged (the subscription table has no getter; it is observed through the service's own notifications)."""
import itertools
import json
import os
import random
import re
import subprocess
import time

from common import (Inconclusive, build_harness, copy_specs, log, rundir, seed, tlc, tlc_failed, tlc_stats, tlc_violation,
                    write_cfg)

WALLETS = ["w1", "w2", "adv"]
URLS = ["u1", "u2", "u3"]
SHAPES = ["ok", "badhash", "shorthash", "badsig", "badurl", "nil"]
CONST = {"Wallet": '{"w1", "w2", "adv"}', "Url": '{"u1", "u2", "u3"}', "NoUrl": '"none"', "MaxPost": "2"}


def run_mc(wd, tier):
    copy_specs(wd, ["Webhooks.tla"])
    cfg = os.path.join(wd, "mc_webhooks.cfg")
    const = dict(CONST)
    if tier == "quick":
        const["Url"] = '{"u1", "u2"}'
    write_cfg(cfg, "Spec", const, ["TypeOK", "W1_OwnerDecides"],
              properties=["W2_RefusedChangesNothing", "W3_EntryChangesByOwner", "W4_NotifyExact"], constraint="Bound")
    rc, out = tlc(wd, "Webhooks.tla", cfg, workers=8, timeout=1200)
    open(os.path.join(wd, "mc_webhooks.out"), "w").write(out)
    v = tlc_violation(out)
    fail = tlc_failed(out, rc)
    if fail or v:
        raise Inconclusive("Webhooks.tla: bounded model run failed: %s" % (fail or v))
    return tlc_stats(out)


def behaviours(rng, n):
    out = []
    sub = lambda w, u, by=None, shape="ok": {"op": "sub", "w": w, "u": u, "by": by or w, "shape": shape}
    # directed: subscribe / replace / remove / notify; every refusal shape on an empty and on a filled table;
    # the adversary naming somebody else's address; endpoints going down and coming back
    out.append([sub("w1", "u1"), {"op": "notify", "ws": ["w1", "w2"]}, sub("w2", "u2"), {"op": "notify", "ws": ["w1", "w2", "adv"]},
                sub("w1", "u3"), {"op": "notify", "ws": ["w1"]}, {"op": "remove", "w": "w1"}, {"op": "notify", "ws": ["w1", "w2"]},
                {"op": "remove", "w": "w1"}, sub("w1", "u2"), {"op": "notify", "ws": ["w1", "w2"]}])
    for filled in (False, True):
        ops = [sub("w1", "u1"), sub("w2", "u2")] if filled else []
        for shape in SHAPES[1:]:
            ops += [sub("w1", "u3", shape=shape), sub("w2", "u1", by="w2", shape=shape)]
        for w, by in (("w1", "adv"), ("w2", "adv"), ("w1", "w2"), ("adv", "w1")):
            ops += [sub(w, "u3", by=by)]
            ops += [sub(w, "u3", by=by, shape=s) for s in ("badhash", "badsig")]
        ops += [sub("adv", "u3"), {"op": "notify", "ws": ["w1", "w2", "adv"]}]
        out.append(ops)
    out.append([sub("w1", "u1"), sub("w2", "u1"), {"op": "notify", "ws": ["w1", "w2"]}, {"op": "down", "u": "u1"},
                {"op": "notify", "ws": ["w1", "w2"]}, sub("w2", "u2"), {"op": "notify", "ws": ["w2", "w1"]}, {"op": "up", "u": "u1"},
                {"op": "notify", "ws": ["w1", "w2"]}, {"op": "down", "u": "u2"}, sub("w1", "u2"), {"op": "up", "u": "u2"},
                {"op": "notify", "ws": ["w1"]}])
    # O-W1: the bytes of an earlier accepted request sent again bring the earlier endpoint back
    rep = lambda w, u: {"op": "replay", "w": w, "u": u}
    out.append([sub("w1", "u1"), sub("w1", "u2"), {"op": "notify", "ws": ["w1"]}, rep("w1", "u1"), {"op": "notify", "ws": ["w1"]},
                {"op": "remove", "w": "w1"}, rep("w1", "u2"), {"op": "notify", "ws": ["w1", "w2"]}, rep("w2", "u1"), sub("w2", "u3"), rep("w1", "u1"),
                {"op": "down", "u": "u1"}, {"op": "notify", "ws": ["w1", "w2"]}, rep("w2", "u3"), {"op": "up", "u": "u1"}, {"op": "notify", "ws": ["w1", "w2"]}])
    for perm in itertools.permutations(WALLETS):
        out.append([sub(w, URLS[i]) for i, w in enumerate(perm)] + [{"op": "notify", "ws": list(perm)}] +
                   [{"op": "remove", "w": perm[0]}, {"op": "notify", "ws": list(perm)}])
    for _ in range(n):
        ops = []
        for _ in range(rng.randint(5, 16)):
            r = rng.random()
            if r < 0.5:
                w = rng.choice(WALLETS)
                by = w if rng.random() < 0.6 else rng.choice(WALLETS)
                shape = "ok" if rng.random() < 0.6 else rng.choice(SHAPES)
                ops.append(sub(w, rng.choice(URLS), by=by, shape=shape))
            elif r < 0.56:
                ops.append({"op": "remove", "w": rng.choice(WALLETS)})
            elif r < 0.64:
                ops.append(rep(rng.choice(WALLETS), rng.choice(URLS)))
            elif r < 0.85:
                k = rng.randint(1, 3)
                ops.append({"op": "notify", "ws": rng.sample(WALLETS, k)})
            else:
                ops.append({"op": rng.choice(["down", "up"]), "u": rng.choice(URLS)})
        out.append(ops)
    return [{"id": "W-%d" % i, "wallets": WALLETS, "urls": URLS, "ops": ops} for i, ops in enumerate(out)]


def drive_validate(wd, drivebin, behs):
    os.makedirs(wd, exist_ok=True)
    with open(os.path.join(wd, "beh.ndjson"), "w") as f:
        for b in behs:
            f.write(json.dumps(b) + "\n")
    p = subprocess.run([drivebin, "webhook", "beh.ndjson", "trace.ndjson"], cwd=wd, stdout=subprocess.PIPE,
                       stderr=open(os.path.join(wd, "stderr.log"), "w"), timeout=1800)
    if p.returncode != 0:
        raise Inconclusive("webhook driver failed (rc=%s), see %s/stderr.log" % (p.returncode, wd))
    copy_specs(wd, ["Webhooks.tla", "WebhooksTrace.tla"])
    write_cfg(os.path.join(wd, "t.cfg"), "TSpec", dict(CONST, TraceFile='"trace.ndjson"'),
              ["Conforms", "T_OwnerDecides"], postcondition="Accepted")
    rc, out = tlc(wd, "WebhooksTrace.tla", os.path.join(wd, "t.cfg"), workers=1, timeout=1200)
    open(os.path.join(wd, "tlc.out"), "w").write(out)
    lines = open(os.path.join(wd, "trace.ndjson")).read().splitlines()
    v = tlc_violation(out)
    fail = tlc_failed(out, rc)
    if fail and not v:
        raise Inconclusive("webhook trace validation failed: %s (see %s/tlc.out)" % (fail, wd))
    violations = []
    if v or ("Postcondition" in out and "is false" in out):
        ps = re.findall(r"/\\ pos = (\d+)", out)
        pos = max(1, int(ps[-1]) - 1) if ps else 1
        bidx = -1
        for l in lines[:pos]:
            if l.startswith('{"a":"Reset"'):
                bidx += 1
        violations.append(dict(what=v or "trace not explained", event=json.loads(lines[pos - 1]), behaviour=behs[max(0, bidx)]))
    acts = {}
    for l in lines:
        m = re.match(r'\{"a":"([A-Za-z]+)"', l)
        if m:
            acts[m.group(1)] = acts.get(m.group(1), 0) + 1
    return violations, len(lines), acts


def run(tier, wd, drivebin, nrandom=None):
    rng = random.Random(seed() * 37 + 11)
    behs = behaviours(rng, nrandom if nrandom is not None else (60 if tier == "quick" else 1500))
    violations, nev, acts = drive_validate(wd, drivebin, behs)
    if violations:
        # the endpoints are real HTTP servers and the service gives a POST five seconds: on an overloaded machine a
        # message can be late. A verdict needs the offending behaviour to fail again on its own.
        again, _, _ = drive_validate(os.path.join(wd, "confirm"), drivebin, [violations[0]["behaviour"]])
        if not again:
            raise Inconclusive("webhook behaviour %s was not explained by Webhooks.tla in the full run but is on its own "
                               "(load average %.0f): not reproduced, no verdict" % (violations[0]["behaviour"]["id"], os.getloadavg()[0]))
    return violations, nev, acts, len(behs)


def stress(tier, wd, drivebin):
    """Valid subscriptions from sixteen keys and notifications for all of them at once on one real service.
    Returns (crashed, detail)."""
    os.makedirs(wd, exist_ok=True)
    p = subprocess.run([drivebin, "webhook-stress", "2" if tier == "quick" else "15"], cwd=wd, stdout=subprocess.PIPE,
                       stderr=subprocess.PIPE, text=True, timeout=600)
    last = p.stdout.strip().splitlines()[-1] if p.stdout.strip() else ""
    if p.returncode == 0:
        return False, last
    err = p.stderr or ""
    if "fatal error" in err or "panic:" in err:
        first = [l for l in err.splitlines() if l.startswith(("fatal error", "panic:"))][:1]
        return True, (first[0] if first else "crash") + " (Webhooks requests and notifications overlapping on one node)"
    if p.returncode == 3:
        return True, "valid subscriptions refused or notified at the wrong endpoint after overlapping requests: " + last
    raise Inconclusive("webhook stress driver failed (rc=%s): %s" % (p.returncode, err[-300:]))


def check(prop, tier):
    t0 = time.time()
    wd = rundir("%s-%s" % (prop, tier))
    drivebin = build_harness(into=wd)
    mc = run_mc(wd, tier)
    log("[mc] Webhooks %s" % mc)
    violations, nev, acts, nb = run(tier, os.path.join(wd, "tv"), drivebin)
    crashed, detail = stress(tier, os.path.join(wd, "stress"), drivebin)
    if crashed:
        violations.append(dict(what="overlapping requests", event={"a": "Stress", "detail": detail}, behaviour={}))
    else:
        log("[stress] " + detail)
    if violations:
        for v in violations:
            log("  webhook subscriptions: %s at %s" % (v["what"], json.dumps(v["event"])[:300]))
        log("[fail] %s %s: the recorded run is not a behaviour of Webhooks.tla" % (prop, tier))
        return 1
    log("[ok] %s %s: %d behaviours, %d events %s, %.0fs" % (prop, tier, nb, nev, acts, time.time() - t0))
    return 0


def replay(prop, path):
    return check(prop, "quick")
