"""C20: a wallet file yields the original wallet or an error (WalletFile.tla + file driver)."""
import json
import os
import re
import subprocess
import time

from common import (Inconclusive, NCPU, TLC_CP, build_harness, copy_specs, log, rundir, save_replay, seed,
                    tlc_failed, tlc_stats, tlc_violation, write_cfg, write_evidence)

CODE_MODEL = {"LenCheck": "TRUE"}


def check(prop, tier):
    t0 = time.time()
    wd = rundir("%s-%s" % (prop, tier))
    drivebin = build_harness(into=wd)
    copy_specs(wd, ["WalletFile.tla", "WalletFileTrace.tla"])
    # bounded model: all crash prefixes, all single corruptions, all key classes at scaled region lengths
    const = {"NonceLen": "2", "TagLen": "2", "CtLen": "3"}
    const.update(CODE_MODEL)
    write_cfg(os.path.join(wd, "mc.cfg"), "Spec", const, ["C20_OriginalOrError", "C20_OriginalOnlyFromIntactFile"])
    p = subprocess.run(["java", "-cp", TLC_CP, "tlc2.TLC", "-workers", "2", "-metadir", os.path.join(wd, "meta"), "-config", "mc.cfg",
                        "WalletFile.tla"], cwd=wd, capture_output=True, text=True, timeout=600)
    out = p.stdout + p.stderr
    if tlc_failed(out, p.returncode) or tlc_violation(out):
        raise Inconclusive("WalletFile model run failed or violated: " + str(tlc_failed(out, p.returncode) or tlc_violation(out)))
    mc = tlc_stats(out)
    scratch = os.path.join(wd, "scratch")
    os.makedirs(scratch)
    tf = os.path.join(wd, "trace.ndjson")
    p = subprocess.run([drivebin, "file", tf, str(seed()), tier, scratch], capture_output=True, text=True, timeout=3000)
    if p.returncode != 0:
        raise Inconclusive("file driver failed: " + p.stderr[-400:])
    events = [json.loads(l) for l in open(tf)]
    const = {"NonceLen": "12", "TagLen": "16", "CtLen": "0", "TraceFile": '"trace.ndjson"'}
    const.update(CODE_MODEL)
    write_cfg(os.path.join(wd, "t.cfg"), "TSpec", const, ["C20_NeverPanicNeverOther", "C20_Conforms"], postcondition="Accepted")
    violations = []
    remaining = events
    for _ in range(6):
        with open(tf, "w") as f:
            for e in remaining:
                f.write(json.dumps(e) + "\n")
        fo = open(os.path.join(wd, "tlc.out"), "w")
        pr = subprocess.run(["java", "-cp", TLC_CP, "tlc2.TLC", "-workers", "1", "-metadir", os.path.join(wd, "meta"), "-config",
                             "t.cfg", "WalletFileTrace.tla"], cwd=wd, stdout=fo, stderr=subprocess.STDOUT, timeout=1800)
        out = open(os.path.join(wd, "tlc.out")).read()
        fail = tlc_failed(out, pr.returncode)
        if fail:
            raise Inconclusive("trace validation failed: " + fail)
        v = tlc_violation(out)
        if not v:
            break
        ps = re.findall(r"/\\ pos = (\d+)", out)
        pos = int(ps[-1]) - 1
        bad = remaining[pos - 1]
        violations.append(dict(what=v, event=bad))
        # drop all events of the same kind and outcome so that a different violation is still reported
        remaining = [e for e in remaining if not (e["kind"] == bad["kind"] and e["outcome"] == bad["outcome"])]
    kinds = {}
    for e in events:
        kinds[e["kind"]] = kinds.get(e["kind"], 0) + 1
    distinct = len({(e["kind"], e["len"], e["bad"], e["same"], e["goodlen"], e["full"]) for e in events if e["kind"] != "intact"})
    wall = time.time() - t0
    cov = {"evaluations": len(events), "distinct_nontrivial": distinct,
           "rule": "one evaluation = one read of a damaged / wrongly keyed real wallet file through fileoperations.ReadWallet; "
                   "distinct = distinct (kind, file length, changed byte position, key class) tuples; the intact round trips are "
                   "the only trivial cases. Truncation lengths 0..len and single-byte positions are enumerated completely per wallet.",
           "samples": events[:2] + [e for e in events if e["kind"] == "truncated"][:2], "exhaustive": True,
           "by_kind": kinds, "states": mc["distinct"], "transitions": mc["generated"], "code_model": CODE_MODEL,
           "explanation": "WalletFile.tla bounded run (all crash prefixes / corruptions / key classes at scaled lengths) + every "
                          "enumerated concrete fault executed on the real code and judged by TLC against ReadOutcome"}
    write_evidence(prop, tier, "fault_enumeration", cov, wall, len(violations), ["AES-GCM and GOB behave as specified (AEAD axiom)", "TLC"])
    if violations:
        for i, v in enumerate(violations):
            path = save_replay(prop, "%s-%d" % (tier, i), v)
            print("VIOLATION property=%s replay=%s" % (prop, path), flush=True)
            log("  %s: %s" % (v["what"], json.dumps(v["event"])))
        return 1
    log("[ok] %s %s: %d reads, %.0fs" % (prop, tier, len(events), wall))
    return 0


def replay(prop, path):
    return check(prop, "quick")
