"""C08: ledger operations never wedge the node (WalkLocks.tla + lock driver)."""
import json
import os
import subprocess
import time

from common import (Inconclusive, NCPU, TLC_CP, build_harness, copy_specs, log, rundir, save_replay, seed,
                    tlc_failed, tlc_stats, tlc_violation, write_cfg, write_evidence)

# the protocols of the tree being verified (flipped by the commits that repaired F1 / F2)
CODE_MODEL = {"Proto": '"drain"', "StreamProto": '"snapshot"', "LoopProto": '"survives"', "TruncMayFail": "TRUE",
              "SendProto": '"drop"'}

OPS_QUICK = ["Ops_RW0", "Ops_RW1", "Ops_RW2", "Ops_RWfull", "Ops_RRW", "Ops_T1", "Ops_T2", "Ops_T3", "Ops_SW",
             "Ops_SWR", "Ops_STW", "Ops_WWW"]
OPS_THOROUGH = OPS_QUICK + ["Ops_RW3", "Ops_SSW"]


def run_mc(wd, tier):
    copy_specs(wd, ["WalkLocks.tla", "WalkLocksMC.tla"])
    nanc = 2 if tier == "quick" else 3
    jobs = []
    for ops in (OPS_THOROUGH if tier == "thorough" else OPS_QUICK):
        cfg = os.path.join(wd, ops + ".cfg")
        const = {"NAnc": str(nanc), "Ops": "<- " + ops, "StreamBuf": "1", "SignalBuf": "1"}
        const.update(CODE_MODEL)
        write_cfg(cfg, "Spec", const, ["TypeOK", "NoLeak", "NoAbandonedWalker", "NoSendOnClosed"], ["EveryOpReturns"],
                  deadlock=True)
        meta = os.path.join(wd, "meta-" + ops)
        fo = open(os.path.join(wd, ops + ".out"), "w")
        cmd = ["java", "-XX:+UseParallelGC", "-Xmx2g", "-cp", TLC_CP, "tlc2.TLC", "-workers", "2", "-metadir", meta,
               "-config", cfg, "WalkLocksMC.tla"]
        jobs.append((ops, subprocess.Popen(cmd, cwd=wd, stdout=fo, stderr=subprocess.STDOUT)))
    tot = {"generated": 0, "distinct": 0}
    per = {}
    for ops, p in jobs:
        try:
            p.wait(timeout=900 if tier == "quick" else 3000)
        except subprocess.TimeoutExpired:
            p.kill()
            raise Inconclusive("WalkLocks model run %s timed out" % ops)
        out = open(os.path.join(wd, ops + ".out")).read()
        fail = tlc_failed(out, p.returncode)
        if fail:
            raise Inconclusive("WalkLocks model run %s failed: %s" % (ops, fail))
        v = tlc_violation(out)
        if v:
            raise Inconclusive("the WalkLocks model of the repaired protocol violates %s in %s: a defect of the "
                               "specification, not evidence about the code" % (v, ops))
        st = tlc_stats(out)
        per[ops] = st["distinct"]
        tot["generated"] += st["generated"]
        tot["distinct"] += st["distinct"]
    return tot, per, nanc


def check(prop, tier):
    t0 = time.time()
    wd = rundir("%s-%s" % (prop, tier))
    drivebin = build_harness(into=wd)
    tot, per, nanc = run_mc(wd, tier)
    log("[mc] WalkLocks %s" % tot)
    # real code
    d = os.path.join(wd, "tv")
    os.makedirs(d)
    tf = os.path.join(d, "trace.ndjson")
    p = subprocess.run([drivebin, "locks", tf, str(seed()), tier], cwd=d, stdout=subprocess.PIPE,
                       stderr=subprocess.DEVNULL, text=True, timeout=3000)
    if p.returncode != 0 or not os.path.exists(tf):
        raise Inconclusive("lock driver failed (rc=%s)" % p.returncode)
    events = [json.loads(l) for l in open(tf)]
    if not events:
        raise Inconclusive("lock driver recorded nothing")
    copy_specs(d, ["WalkLocksTrace.tla"])
    cfg = os.path.join(d, "t.cfg")
    invs = ["C08_EveryOpReturns", "C08_NoPanic", "C08_NoWalkerLeft", "C08_LaterOpsComplete"]
    write_cfg(cfg, "Spec", {"TraceFile": '"trace.ndjson"'}, invs, postcondition="Accepted")
    violations = []
    remaining = events
    # TLC stops at the first violated invariant: validate again after each reported scenario
    for _ in range(8):
        with open(tf, "w") as f:
            for e in remaining:
                f.write(json.dumps(e) + "\n")
        fo = open(os.path.join(d, "tlc.out"), "w")
        pr = subprocess.run(["java", "-cp", TLC_CP, "tlc2.TLC", "-workers", "1", "-metadir", os.path.join(d, "meta"),
                             "-config", cfg, "WalkLocksTrace.tla"], cwd=d, stdout=fo, stderr=subprocess.STDOUT, timeout=600)
        out = open(os.path.join(d, "tlc.out")).read()
        fail = tlc_failed(out, pr.returncode)
        if fail:
            raise Inconclusive("trace validation failed: " + fail)
        v = tlc_violation(out)
        if not v:
            break
        import re
        ps = re.findall(r"/\\ pos = (\d+)", out)
        pos = int(ps[-1]) - 1
        violations.append(dict(what=v, scenario=remaining[pos - 1]))
        remaining = remaining[:pos - 1] + remaining[pos:]
    kinds = {}
    for e in events:
        kinds[e["kind"]] = kinds.get(e["kind"], 0) + 1
    wall = time.time() - t0
    cov = {"states": tot["distinct"], "transitions": tot["generated"], "traces_validated_against_impl": len(events) - len(violations),
           "samples": events[:3], "mc_runs": per, "mc_nanc": nanc, "scenarios_by_kind": kinds, "code_model": CODE_MODEL,
           "mc_properties": ["NoLeak", "NoAbandonedWalker", "NoSendOnClosed", "EveryOpReturns (liveness, weak fairness)",
                             "deadlock freedom"],
           "explanation": "states: sum over bounded WalkLocks runs (one per operation set); traces: scenarios executed on "
                          "real AccountingBooks with running background loops (cancellation at every visit count, every "
                          "truncation cut depth, streaming against writers) and judged by TLC from WalkLocksTrace.tla"}
    write_evidence(prop, tier, "model_checking", cov, wall, len(violations),
                   ["the graph library is observed from outside (goroutine profile, liveness probes with a 10 s wedge bound)",
                    "Go RWMutex writer preference as modelled", "TLC"])
    if violations:
        for i, v in enumerate(violations):
            path = save_replay(prop, "%s-%d" % (tier, i), v)
            print("VIOLATION property=%s replay=%s" % (prop, path), flush=True)
            log("  %s: %s" % (v["what"], json.dumps(v["scenario"])[:300]))
        return 1
    log("[ok] %s %s: %d scenarios, %.0fs" % (prop, tier, len(events), wall))
    return 0


def replay(prop, path):
    v = json.load(open(path))
    log("replay: re-running the whole scenario list (scenario of interest: %s k=%s)" % (v["scenario"]["kind"], v["scenario"]["k"]))
    return check(prop, "quick")
