"""C18: concurrent use of a node is free of data races (Go race detector on a seeded concurrent workload)."""
import json
import os
import re
import subprocess
import time

from common import Inconclusive, NCPU, build_harness, log, rundir, save_replay, seed, write_evidence


def check(prop, tier):
    t0 = time.time()
    wd = rundir("%s-%s" % (prop, tier))
    drivebin = build_harness(race=True, into=wd)
    secs = 20 if tier == "quick" else 240
    seeds = [seed(), seed() + 1] if tier == "quick" else [seed() + i for i in range(4)]
    procs = []
    for s in seeds:
        d = os.path.join(wd, "s%d" % s)
        os.makedirs(d)
        env = dict(os.environ, GORACE="halt_on_error=0 history_size=5")
        procs.append((s, d, subprocess.Popen([drivebin, "race", str(s), str(secs)], cwd=d, stdout=subprocess.PIPE,
                                             stderr=open(os.path.join(d, "race.err"), "w"), text=True, env=env)))
    reports, ops = [], {}
    for s, d, p in procs:
        try:
            out, _ = p.communicate(timeout=secs * 4 + 120)
        except subprocess.TimeoutExpired:
            for _, _, q in procs:
                if q.poll() is None:
                    q.kill()
            raise Inconclusive("race workload (seed %d) did not finish: the node may be wedged (see C08)" % s)
        err = open(os.path.join(d, "race.err")).read()
        if "DATA RACE" not in err and p.returncode not in (0, 66):
            raise Inconclusive("race workload (seed %d) failed with rc=%s: %s" % (s, p.returncode, err[-400:]))
        try:
            o = json.loads(out.strip().splitlines()[-1])
            for k, v in o.items():
                ops[k] = ops.get(k, 0) + v
        except Exception:
            raise Inconclusive("race workload (seed %d) printed no summary" % s)
        for rep in re.split(r"={10,}", err):
            if "DATA RACE" in rep:
                funcs = [l.strip() for l in rep.splitlines() if l.startswith("  ") and "(" in l and "main." not in l and "slices." not in l]
                reports.append(dict(seed=s, key=" | ".join(sorted(set(funcs[:2]))), report=rep.strip()[:3000]))
    uniq = {}
    for r in reports:
        uniq.setdefault(r["key"], r)
    wall = time.time() - t0
    total = sum(ops.values())
    cov = {"evaluations": total, "distinct_nontrivial": len([k for k, v in ops.items() if v > 0]) * len(seeds),
           "rule": "one evaluation = one completed operation of the seeded concurrent workload (proposals, gossip deliveries incl. "
                   "orphans, balance / history reads, DAG streams, lookups, truncations, trust changes, awaiting-cache calls, gossip "
                   "handlers) while the real retry ticker, subscriber and truncation loop run; distinct = operation kinds x seeds; "
                   "in Ledger.tla every pair of these operations is co-enabled on a loaded node, so all pairs are overlapped",
           "samples": [ops], "seeds": seeds, "seconds_per_seed": secs, "race_reports": len(reports), "distinct_races": len(uniq)}
    write_evidence(prop, tier, "exploration", cov, wall, len(uniq), ["Go race detector (happens-before, reports only observed races)"])
    if uniq:
        for i, r in enumerate(uniq.values()):
            path = save_replay(prop, "%s-%d" % (tier, i), r)
            print("VIOLATION property=%s replay=%s" % (prop, path), flush=True)
            log("  data race: " + r["key"])
        return 1
    log("[ok] %s %s: %d operations over %d seeds, no race report, %.0fs" % (prop, tier, total, len(seeds), wall))
    return 0


def replay(prop, path):
    return check(prop, "quick")
