"""./check setup: build the harness once and parse every specification."""
import os
import subprocess
import sys

import common


def main():
    try:
        common.build_harness()
    except common.Inconclusive as e:
        print(e, file=sys.stderr)
        return 2
    rc = 0
    for f in sorted(os.listdir(common.SPECS)):
        if not f.endswith(".tla"):
            continue
        p = subprocess.run(["java", "-cp", common.TLC_CP, "tla2sany.SANY", f], cwd=common.SPECS,
                           capture_output=True, text=True)
        ok = p.returncode == 0 and "Semantic errors" not in p.stdout and "Parse Error" not in p.stdout
        common.log("[sany] %s %s" % (f, "ok" if ok else "FAILED"))
        if not ok:
            common.log(p.stdout[-2000:])
            rc = 2
    return rc
