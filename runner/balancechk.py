"""Balance cache and read throttle of the notary (BalanceCache.tla): bounded model checking (one configuration in which
`B1_Fresh` holds, two in which TLC refutes it: documented observations O-B1, O-B2), behaviours on the real notary server
with a real ledger, cache and flash memory, TLC trace validation.  Not one of the listed properties on its own:
`./check B01 <tier>`."""
import json
import os
import random
import re
import subprocess
import time

from common import (Inconclusive, build_harness, copy_specs, log, rundir, seed, tlc, tlc_failed, tlc_stats, tlc_violation,
                    write_cfg)

ADDRS = ["A", "B", "M"]
NONE = "2000000000"


def run_mc(wd, tier):
    copy_specs(wd, ["BalanceCache.tla"])
    res = {}
    addr = '{"A", "B"}' if tier == "quick" else '{"A", "B", "M"}'
    runs = [("sync_noreject", "FALSE", '{"propose", "confirm"}', None),
            ("sync_reject", "FALSE", '{"propose", "confirm", "reject"}', "B1_Fresh"),
            ("async", "TRUE", '{"propose"}', "B1_Fresh")]
    for name, asyn, kinds, expect in runs:
        cfg = os.path.join(wd, "mc_%s.cfg" % name)
        write_cfg(cfg, "Spec", {"Addr": addr, "None": "99", "MaxVer": "2", "Async": asyn, "Kinds": kinds},
                  ["TypeOK", "B1_Fresh", "B3_CachedWasTrue"], properties=["B2_ThrottleFirst"])
        rc, out = tlc(wd, "BalanceCache.tla", cfg, workers=8, timeout=1200)
        open(os.path.join(wd, "mc_%s.out" % name), "w").write(out)
        v = tlc_violation(out)
        if expect:
            if v != expect:
                raise Inconclusive("BalanceCache.tla: TLC was expected to refute %s in configuration %s (documented observation), got %s"
                                   % (expect, name, v))
        else:
            fail = tlc_failed(out, rc)
            if fail or v:
                raise Inconclusive("BalanceCache.tla: bounded model run %s failed: %s" % (name, fail or v))
        res[name] = tlc_stats(out)
    return res


def behaviours(rng, n):
    def bal(a, by=None, d=None):
        return {"op": "bal", "a": a, "by": by or a, "d": d or a}
    lift = {"op": "lift"}
    out = []
    # directed: cached value served until a seal removes it; Reject leaves the receiver's entry (O-B1); requests by
    # somebody else and with somebody else's address as data mark the address and are refused
    out.append([bal("A"), bal("A"), lift, bal("A"), {"op": "propose", "iss": "A", "rcv": "B", "amt": 3}, bal("A"), bal("B"), lift, bal("B"),
                bal("A"), {"op": "propose", "iss": "A", "rcv": "B", "amt": 5, "data": True}, bal("A"), lift, bal("B"), {"op": "reject", "k": 1},
                bal("B"), bal("A"), lift, bal("B"), bal("A")])
    out.append([bal("B"), lift, {"op": "propose", "iss": "A", "rcv": "B", "amt": 4, "data": True}, bal("B"), bal("A"), {"op": "confirm", "k": 0},
                bal("B"), bal("A"), bal("A", "M"), bal("M", "M", "A"), bal("M"), lift, bal("M"), bal("A", "M"), bal("A"), lift, bal("A", "A", "M"),
                bal("A")])
    out.append([bal("A"), bal("B"), bal("M"), {"op": "propose", "iss": "A", "rcv": "M", "amt": 2}, bal("A"), bal("B"), bal("M"), lift,
                bal("A"), bal("B"), bal("M"), {"op": "propose", "iss": "A", "rcv": "M", "amt": 0, "data": True}, lift, bal("A"), bal("M"),
                {"op": "confirm", "k": 1}, bal("A"), bal("M"), {"op": "confirm", "k": 1}, {"op": "reject", "k": 1}, lift, bal("A"), bal("M")])
    # O-B2 on the real code: the save goroutine of a read is held back (a gate in front of the real cache's SaveBalance),
    # a seal and its invalidation happen, the save lands: the pre-seal number is cached and served
    hold = lambda a: {"op": "bal", "a": a, "by": a, "d": a, "hold": True}
    land = {"op": "land"}
    out.append([hold("A"), {"op": "propose", "iss": "A", "rcv": "B", "amt": 3}, land, bal("A"), lift, bal("A"), hold("B"), land, lift, bal("B"),
                {"op": "propose", "iss": "A", "rcv": "B", "amt": 2}, hold("B"), hold("A"), {"op": "propose", "iss": "A", "rcv": "B", "amt": 1},
                land, bal("A"), bal("B"), lift, bal("A"), bal("B")])
    out.append([hold("B"), {"op": "propose", "iss": "A", "rcv": "B", "amt": 4, "data": True}, {"op": "confirm", "k": 0}, land, bal("B"), bal("A"),
                lift, bal("B"), hold("M"), land, hold("M"), lift, hold("M"), land, bal("M")])
    for _ in range(n):
        ops, k = [], 0
        heldnow = set()
        for _ in range(rng.randint(8, 22)):
            r = rng.random()
            if r < 0.45:
                a = rng.choice(ADDRS)
                if rng.random() < 0.2 and a not in heldnow:
                    ops.append(hold(a))
                    heldnow.add(a)       # at most one held save per address (it may turn out not to be started at all)
                else:
                    ops.append(bal(a, a if rng.random() < 0.8 else rng.choice(ADDRS), a if rng.random() < 0.85 else rng.choice(ADDRS)))
            elif r < 0.52:
                ops.append(land)
                heldnow = set()
            elif r < 0.65:
                amt = rng.randint(1, 6) if rng.random() < 0.8 else 0
                ops.append({"op": "propose", "iss": "A", "rcv": rng.choice(["B", "M"]), "amt": amt, "data": amt == 0 or rng.random() < 0.5})
                k += 1
            elif r < 0.8 and k:
                ops.append({"op": rng.choice(["confirm", "reject"]), "k": rng.randrange(k)})
            else:
                ops.append(lift)
        out.append(ops)
    return [{"id": "B-%d" % i, "ops": ops} for i, ops in enumerate(out)]


def drive_validate(wd, drivebin, behs):
    os.makedirs(wd, exist_ok=True)
    with open(os.path.join(wd, "beh.ndjson"), "w") as f:
        for b in behs:
            f.write(json.dumps(b) + "\n")
    p = subprocess.run([drivebin, "balance", "beh.ndjson", "trace.ndjson"], cwd=wd, stdout=subprocess.PIPE,
                       stderr=open(os.path.join(wd, "stderr.log"), "w"), timeout=1800)
    if p.returncode != 0:
        raise Inconclusive("balance driver failed (rc=%s), see %s/stderr.log" % (p.returncode, wd))
    copy_specs(wd, ["BalanceCache.tla", "BalanceCacheTrace.tla"])
    write_cfg(os.path.join(wd, "t.cfg"), "TSpec",
              {"Addr": '{"A", "B", "M"}', "None": NONE, "MaxVer": "2", "Async": "FALSE", "Kinds": '{"propose", "confirm", "reject"}',
               "TraceFile": '"trace.ndjson"'}, ["Conforms"], postcondition="Accepted")
    rc, out = tlc(wd, "BalanceCacheTrace.tla", os.path.join(wd, "t.cfg"), workers=1, timeout=1200)
    open(os.path.join(wd, "tlc.out"), "w").write(out)
    lines = open(os.path.join(wd, "trace.ndjson")).read().splitlines()
    v = tlc_violation(out)
    fail = tlc_failed(out, rc)
    if fail and not v:
        raise Inconclusive("balance trace validation failed: %s (see %s/tlc.out)" % (fail, wd))
    violations = []
    if v or ("Postcondition" in out and "is false" in out):
        ps = re.findall(r"/\\ pos = (\d+)", out)
        pos = max(1, int(ps[-1]) - 1) if ps else 1
        violations.append(dict(what=v or "trace not explained", event=json.loads(lines[pos - 1])))
    acts = {"stale_served": 0}
    for l in lines:
        e = json.loads(l)
        acts[e["e"]] = acts.get(e["e"], 0) + 1
        if e["e"] == "Bal":
            acts["Bal:" + e["res"]] = acts.get("Bal:" + e["res"], 0) + 1
            if e["res"] == "ok" and e["val"] != e["ref"]:
                acts["stale_served"] += 1
            if e.get("held"):
                acts["saves_held"] = acts.get("saves_held", 0) + 1
    return violations, len(lines), acts


def check(prop, tier):
    t0 = time.time()
    wd = rundir("%s-%s" % (prop, tier))
    drivebin = build_harness(into=wd)
    mc = run_mc(wd, tier)
    log("[mc] BalanceCache %s" % mc)
    rng = random.Random(seed() * 41 + 3)
    behs = behaviours(rng, 40 if tier == "quick" else 800)
    violations, nev, acts = drive_validate(os.path.join(wd, "tv"), drivebin, behs)
    if violations:
        for v in violations:
            log("  balance cache: %s at %s" % (v["what"], json.dumps(v["event"])[:300]))
        log("[fail] %s %s: the recorded run is not a behaviour of BalanceCache.tla" % (prop, tier))
        return 1
    log("[ok] %s %s: %d behaviours, %d events %s, %.0fs" % (prop, tier, len(behs), nev, acts, time.time() - t0))
    return 0


def replay(prop, path):
    return check(prop, "quick")
