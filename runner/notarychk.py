"""C16: contracts need the receiver; reads need proof of key ownership (Notary.tla + notary driver)."""
import json
import os
import random
import re
import subprocess
import time

from common import (Inconclusive, NCPU, TLC_CP, build_harness, copy_specs, log, rundir, save_replay, seed,
                    tlc, tlc_failed, tlc_stats, tlc_violation, write_cfg, write_evidence)

CONST = {"Addr": '{"A","B","M"}', "Trx": '{"c1","c2","p1"}'}
MCC = dict(CONST, KeepRule='"kept"', Iss="<- MCIss", Rcv="<- MCRcv", HasData="<- MCData", HasSpice="<- MCSpice", Oversize="<- MCOver")
TC = dict(CONST, KeepRule='"kept"', Trx='{"c1","c2","p1","c3"}', Iss="<- TIss", Rcv="<- TRcv", HasData="<- TData", HasSpice="<- TSpice", Oversize="<- TOver", MaxChal="1000",
          TraceFile='"trace.ndjson"')
INV = ["C16_ContractNeedsReceiverModuloF11", "C16_TransfersNotParked"]


def run_mc(wd, tier):
    copy_specs(wd, ["Notary.tla", "NotaryMC.tla", "NotaryGen.tla"])
    write_cfg(os.path.join(wd, "mc.cfg"), "Spec", dict(MCC, MaxChal="2" if tier == "quick" else "3"),
              ["TypeOK"] + INV, ["C16_AtMostOnce", "C16_ErrorKeepsAwaiting"])
    rc, out = tlc(wd, "NotaryMC.tla", os.path.join(wd, "mc.cfg"), workers=max(2, NCPU // 2), timeout=3000)
    fail = tlc_failed(out, rc)
    if fail:
        raise Inconclusive("Notary model run failed: " + fail)
    v = tlc_violation(out)
    if v:
        raise Inconclusive("the Notary model violates %s: a defect of the specification" % v)
    return tlc_stats(out)


def simulate(wd, num, depth, sd):
    write_cfg(os.path.join(wd, "gen.cfg"), "GenSpec", dict(MCC, MaxChal="3", GenDepth=str(depth)), invariants=["GenEmit"])
    rc, out = tlc(wd, "NotaryGen.tla", os.path.join(wd, "gen.cfg"), workers=1, timeout=600, simulate="num=%d" % num,
                  extra=["-depth", str(depth + 1), "-seed", str(sd)])
    fail = tlc_failed(out, rc)
    if fail:
        raise Inconclusive("notary behaviour generation failed: " + fail)
    res, seen = [], set()
    for m in re.finditer(r'<<"BEHAVIOUR", "(.*)">>', out):
        js = m.group(1).encode().decode("unicode_escape")
        if js not in seen:
            seen.add(js)
            res.append(json.loads(js))
    return res


def directed_slow():
    """Needs the 20 s read throttle to lapse: balances stay readable only with the owner's key, also once one is cached."""
    Bal = lambda a, d, by: {"op": "balance", "a": a, "d": d, "by": by}
    return [[Bal("A", "A", "A"), Bal("B", "B", "B"), {"op": "throttleexpire"}, Bal("A", "A", "M"), Bal("B", "B", "A"),
             {"op": "throttleexpire"}, Bal("A", "A", "A")]]


def directed_oversize():
    """A contract whose data is one byte over the node's limit is refused outright - in whatever form it is presented it is
    never sealed on the issuer's signature alone - and is not awaiting afterwards."""
    P = lambda t, by="A", form="issued": {"op": "propose", "t": t, "by": by, "form": form}
    C = lambda t, i="A", r="B": {"op": "confirm", "t": t, "issBy": i, "rcvBy": r}
    return [[P("c3"), {"op": "data", "a": "B"}, {"op": "waiting", "a": "B", "cid": 1, "by": "B"}, C("c3"), P("c3"), P("c2"), C("c2"), P("c3")]]


def directed_badtip():
    """A transfer that carries junk where the receiver's signature goes is sealed by Propose into a tip that does not
    validate; the next ledger call drops the tip and fails. A Confirm / Reject that fails this way must not cost the
    receiver the awaiting transaction: the same request succeeds when it is made again."""
    P = lambda t, by="A", form="issued": {"op": "propose", "t": t, "by": by, "form": form}
    C = lambda t, i="A", r="B": {"op": "confirm", "t": t, "issBy": i, "rcvBy": r}
    R = lambda t, a="B", by="B": {"op": "reject", "t": t, "a": a, "by": by}
    W = {"op": "data", "a": "B"}
    return [[P("c1"), P("p1", form="junkrsig"), C("c1"), C("c1"), P("p1"), C("c1")],
            [P("c2"), P("p1", form="junkrsig"), R("c2"), W, {"op": "waiting", "a": "B", "cid": 1, "by": "B"}, R("c2"), R("c2")],
            [P("c1"), P("c2"), P("p1", form="junkrsig"), P("p1"), C("c1"), R("c2"), P("p1", form="junkrsig"), P("p1", form="junkrsig"), P("p1")]]


def directed_lift():
    """The same with the throttle marks deleted from the real flash memory instead of waiting for the window to pass."""
    Bal = lambda a, d, by: {"op": "balance", "a": a, "d": d, "by": by}
    L = {"op": "throttlelift"}
    return [[Bal("A", "A", "A"), Bal("B", "B", "B"), L, Bal("A", "A", "M"), Bal("B", "B", "A"), L, Bal("A", "A", "A"), L,
             Bal("A", "B", "A"), L, Bal("B", "B", "M"), L, Bal("M", "M", "M"), L, Bal("M", "M", "A")],
            [{"op": "propose", "t": "p1", "by": "A", "form": "issued"}, Bal("A", "A", "A"), Bal("B", "B", "B"), L, Bal("B", "B", "M"),
             Bal("A", "A", "B"), L, Bal("A", "A", "A"), Bal("B", "B", "B")]]


def directed_races(tier):
    """The same request many times at once, many times over: a contract is sealed / rejected at most once."""
    P = lambda t, by="A", form="issued": {"op": "propose", "t": t, "by": by, "form": form}
    B = lambda kind, n=8, **kw: dict({"op": "burst", "kind": kind, "n": n}, **kw)
    out = []
    for i in range(12 if tier == "quick" else 150):
        out.append([P("c1"), B("confirm", n=16, t="c1", issBy="A", rcvBy="B"), P("c2"), B("reject", n=16, t="c2", a="B", by="B")])
        out.append([P("c1"), P("c2"), B("confirm", n=12, t="c1", issBy="A", rcvBy="B"), B("confirm", n=12, t="c2", issBy="A", rcvBy="B")])
    return out


def directed():
    P = lambda t, by="A", form="issued": {"op": "propose", "t": t, "by": by, "form": form}
    C = lambda t, i="A", r="B": {"op": "confirm", "t": t, "issBy": i, "rcvBy": r}
    R = lambda t, a="B", by="B": {"op": "reject", "t": t, "a": a, "by": by}
    B = lambda kind, n=8, **kw: dict({"op": "burst", "kind": kind, "n": n}, **kw)
    out = [
        # the honest life cycles
        [P("c1"), {"op": "data", "a": "B"}, {"op": "waiting", "a": "B", "cid": 1, "by": "B"}, C("c1"), C("c1"), P("c1"), C("c1")],
        [P("c2"), R("c2"), R("c2"), P("p1"), P("p1")],
        # dishonest: wrong keys, issuer rejecting, a third party confirming, stale and foreign challenges
        [P("c1"), C("c1", "A", "M"), C("c1", "M", "B"), R("c1", "A", "A"), R("c1", "B", "M"), R("c1", "M", "M"),
         {"op": "data", "a": "M"}, {"op": "waiting", "a": "B", "cid": 1, "by": "M"}, {"op": "waiting", "a": "B", "cid": 1, "by": "B"},
         {"op": "data", "a": "B"}, {"op": "waiting", "a": "B", "cid": 1, "by": "B"}, {"op": "waiting", "a": "B", "cid": 2, "by": "B"},
         {"op": "expire"}, {"op": "waiting", "a": "B", "cid": 2, "by": "B"}, {"op": "indag", "a": "B", "cid": 2, "by": "B"},
         {"op": "balance", "a": "A", "d": "A", "by": "M"}, {"op": "balance", "a": "A", "d": "A", "by": "A"}, C("c1")],
        # concurrent duplicates
        [P("c1"), B("confirm", t="c1", issBy="A", rcvBy="B"), B("confirm", t="c1", issBy="A", rcvBy="B")],
        [B("propose", t="c2", by="A", form="issued"), B("reject", t="c2", a="B", by="B")],
        [B("propose", t="p1", by="A", form="issued"), B("propose", t="p1", by="A", form="issued")],
        [P("c1"), P("c2"), B("confirm", n=4, t="c1", issBy="A", rcvBy="B"), B("reject", n=4, t="c2", a="B", by="B")],
    ]
    return out


WITNESS_F11 = [{"op": "propose", "t": "c2", "by": "A", "form": "issued"}, {"op": "propose", "t": "c2", "by": "A", "form": "resplit"}]


def drive_validate(wd, drivebin, behaviours, inv):
    chunks = [behaviours[i::NCPU] for i in range(NCPU)]
    chunks = [c for c in chunks if c]
    procs = []
    for i, c in enumerate(chunks):
        d = os.path.join(wd, "c%d" % i)
        os.makedirs(d, exist_ok=True)
        with open(os.path.join(d, "beh.ndjson"), "w") as f:
            for b in c:
                f.write(json.dumps(b) + "\n")
        procs.append((d, subprocess.Popen([drivebin, "notary", "beh.ndjson", "trace.ndjson"], cwd=d, stdout=subprocess.PIPE,
                                          stderr=subprocess.DEVNULL)))
    for d, p in procs:
        try:
            p.communicate(timeout=1800)
        except subprocess.TimeoutExpired:
            p.kill()
            raise Inconclusive("notary driver timed out")
        if p.returncode != 0:
            raise Inconclusive("notary driver failed in " + d)
    jobs = []
    for d, _ in procs:
        copy_specs(d, ["Notary.tla", "NotaryTrace.tla"])
        write_cfg(os.path.join(d, "t.cfg"), "TSpec", TC, inv + ["Conforms"], ["T_AtMostOnce"], postcondition="Accepted")
        fo = open(os.path.join(d, "tlc.out"), "w")
        jobs.append((d, subprocess.Popen(["java", "-Xmx3g", "-cp", TLC_CP, "tlc2.TLC", "-workers", "1", "-metadir",
                                          os.path.join(d, "meta"), "-config", "t.cfg", "NotaryTrace.tla"], cwd=d, stdout=fo,
                                         stderr=subprocess.STDOUT)))
    violations, nev, calls = [], 0, {}
    for (d, p), c in zip(jobs, chunks):
        p.wait(timeout=1800)
        out = open(os.path.join(d, "tlc.out")).read()
        fail = tlc_failed(out, p.returncode)
        if fail:
            raise Inconclusive("notary trace validation failed in %s: %s" % (d, fail))
        lines = open(os.path.join(d, "trace.ndjson")).read().splitlines()
        for l in lines:
            m = re.search(r'"op":\{[^}]*"op":"([a-z]+)"', l)
            if m:
                calls[m.group(1)] = calls.get(m.group(1), 0) + 1
        v = tlc_violation(out)
        if v:
            ps = re.findall(r"/\\ pos = (\d+)", out)
            pos = max(1, int(ps[-1]) - 1)
            bidx = sum(1 for l in lines[:pos] if l.startswith('{"a":"Reset"')) - 1
            violations.append(dict(what=v, event=json.loads(lines[pos - 1]), behaviour=c[max(0, bidx)]))
            nev += pos
        else:
            nev += len(lines)
    return violations, nev, calls


def check(prop, tier):
    t0 = time.time()
    rng = random.Random(seed())
    wd = rundir("%s-%s" % (prop, tier))
    drivebin = build_harness(into=wd)
    mc = run_mc(wd, tier)
    log("[mc] Notary %s" % mc)
    sims = simulate(wd, 120 if tier == "quick" else 1500, 22, rng.randint(1, 10 ** 6))
    # the behaviours that wait for the 20 s read throttle to lapse take over a minute: thorough tier only
    extra = directed_slow() if tier == "thorough" else []
    behaviours = [{"id": "C16-%d" % i, "ops": ops} for i, ops in enumerate(sims + directed() + directed_lift() + directed_oversize() + directed_badtip() + directed_races(tier) + extra)]
    log("[gen] %d behaviours" % len(behaviours))
    violations, nev, calls = drive_validate(wd, drivebin, behaviours, INV)
    kv, _, _ = drive_validate(os.path.join(wd, "kf"), drivebin, [{"id": "C16-witness-F11", "ops": WITNESS_F11}],
                              ["C16_ContractNeedsReceiver"])
    if any(v["what"] == "C16_ContractNeedsReceiver" for v in kv):
        print("KNOWN-FINDING: property=C16 a contract that also transfers spice is sealed by Propose without its receiver when it "
              "is presented with its data bytes moved into the subject: the signed message is a bare concatenation, so hash and "
              "issuer signature stay valid (F11; witness replayed on this tree)", flush=True)
    wall = time.time() - t0
    cov = {"states": mc["distinct"], "transitions": mc["generated"], "traces_validated_against_impl": len(behaviours) - len(violations),
           "samples": [b["ops"][:8] for b in behaviours[:2]], "calls_by_kind": calls, "events_validated": nev,
           "explanation": "MC: all interleavings of propose / confirm / reject / challenge / read requests by an honest issuer, an "
                          "honest receiver and a third key, handlers split between cache removal and ledger call; real server: TLC-"
                          "simulated and directed call sequences incl. wrong keys, stale / foreign challenges, replays, re-split "
                          "contracts and bursts of identical concurrent requests, every reply and the observed cache / ledger judged by TLC"}
    write_evidence(prop, tier, "model_checking", cov, wall, len(violations),
                   ["handlers are called directly (no TLS / gRPC transport)", "challenge longevity 1 s, expiry by sleeping", "TLC"])
    if violations:
        for i, v in enumerate(violations):
            path = save_replay(prop, "%s-%d" % (tier, i), v)
            print("VIOLATION property=%s replay=%s" % (prop, path), flush=True)
            log("  %s: %s" % (v["what"], json.dumps(v["event"])[:300]))
        return 1
    log("[ok] %s %s: %d behaviours, %d events, %.0fs" % (prop, tier, len(behaviours), nev, wall))
    return 0


def replay(prop, path):
    v = json.load(open(path))
    wd = rundir("%s-replay" % prop)
    drivebin = build_harness(into=wd)
    viol, _, _ = drive_validate(wd, drivebin, [v["behaviour"]], INV)
    if viol:
        print("VIOLATION property=%s replay=%s" % (prop, path), flush=True)
        return 1
    log("replay: behaviour accepted")
    return 0
