"""Shared machinery of the checks: paths, harness build, TLC invocation, evidence, verdicts."""
import json
import os
import re
import shutil
import subprocess
import sys
import time

VERIF = os.path.dirname(os.path.dirname(os.path.abspath(__file__)))
REPO = os.environ.get("VERIF_REPO", "/repo")
SPECS = os.path.join(VERIF, "specs")
HARNESS = os.path.join(VERIF, "harness")
OUT = os.path.join(VERIF, "out")
# evidence is only ever written for the repository itself; runs against a scratch copy (mutation self-test) keep theirs apart
EVID = os.path.join(VERIF, "evidence") if REPO == "/repo" else os.path.join(OUT, "evidence-scratch")
BIN = os.path.join(OUT, "bin")
NCPU = os.cpu_count() or 4

GOENV = dict(os.environ, GOFLAGS="-mod=mod", GOPROXY="off", GOSUMDB="off", GOTOOLCHAIN="local",
             CGO_ENABLED=os.environ.get("CGO_ENABLED", "1"))

TLC_CP = "/opt/veriftools/tla/tla2tools.jar:/opt/veriftools/tla/CommunityModules-deps.jar"


class Inconclusive(Exception):
    """Tooling trouble: never a violation (exit 2)."""


def log(*a):
    print(*a, file=sys.stderr, flush=True)


def seed():
    try:
        return int(os.environ.get("VERIF_SEED", "1"))
    except ValueError:
        return 1


def rundir(name):
    # replay files of an earlier run of the same check are stale
    rd = os.path.join(OUT, "replay")
    if os.path.isdir(rd) and not name.endswith("-replay"):
        for f in os.listdir(rd):
            if f.startswith(name + "-"):
                os.remove(os.path.join(rd, f))
    if REPO != "/repo":
        name = "scratch-" + name
    d = os.path.join(OUT, name)
    shutil.rmtree(d, ignore_errors=True)
    os.makedirs(d, exist_ok=True)
    return d


def build_harness(race=False, into=None):
    """Rebuild the driver from the current working tree of the repository (hooks on)."""
    bindir = into or BIN
    os.makedirs(bindir, exist_ok=True)
    harness = HARNESS
    if REPO != "/repo":
        # a scratch copy of the repository (mutation self-test): build from a private copy of the harness so that
        # the generated go.mod of concurrent runs against /repo is left alone
        harness = os.path.join(bindir, "harness-src")
        shutil.rmtree(harness, ignore_errors=True)
        shutil.copytree(HARNESS, harness)
    src_sum = os.path.join(REPO, "src", "go.sum")
    shutil.copyfile(src_sum, os.path.join(harness, "go.sum"))
    # the harness module repeats the repository's own requirements (same versions, nothing to resolve offline)
    gomod = os.path.join(harness, "go.mod")
    src_mod = open(os.path.join(REPO, "src", "go.mod")).read()
    reqs = "\n".join(re.findall(r"^require \([^)]*\)", src_mod, re.M | re.S))
    gover = re.search(r"^go (\S+)", src_mod, re.M).group(1)
    txt2 = ("module verif/harness\n\ngo %s\n\nrequire github.com/bartossh/Computantis/src v0.0.0\n\n%s\n\n"
            "replace github.com/bartossh/Computantis/src => %s/src\n" % (gover, reqs, REPO))
    if not os.path.exists(gomod) or open(gomod).read() != txt2:
        open(gomod, "w").write(txt2)
    name = "drive-race" if race else "drive"
    out = os.path.join(bindir, name)
    cmd = ["go", "build", "-tags", "verif", "-o", out]
    if race:
        cmd.insert(2, "-race")
    cmd.append("./cmd/drive")
    t0 = time.time()
    p = subprocess.run(cmd, cwd=harness, env=GOENV, capture_output=True, text=True)
    if p.returncode != 0:
        raise Inconclusive("harness build failed:\n" + p.stdout + p.stderr)
    log("[build] %s in %.1fs" % (name, time.time() - t0))
    return out


def tlc(workdir, module, cfg, workers=1, timeout=600, extra=(), simulate=None, heap=None, dfs=False):
    """Run TLC in workdir. Returns (returncode, output)."""
    meta = os.path.join(workdir, "meta-" + os.path.splitext(os.path.basename(cfg))[0])
    shutil.rmtree(meta, ignore_errors=True)
    java = ["java", "-XX:+UseParallelGC", "-Xss64m"]
    if heap:
        java.append("-Xmx" + heap)
    if dfs:
        java.append("-Dtlc2.tool.queue.IStateQueue=StateDeque")
    cmd = java + ["-cp", TLC_CP, "tlc2.TLC", "-workers", str(workers), "-metadir", meta, "-config", cfg]
    if simulate:
        cmd += ["-simulate", simulate]
    cmd += list(extra) + [module]
    try:
        p = subprocess.run(cmd, cwd=workdir, capture_output=True, text=True, timeout=timeout)
    except subprocess.TimeoutExpired as e:
        out = (e.stdout or b"").decode() if isinstance(e.stdout, bytes) else (e.stdout or "")
        return 124, out
    finally:
        shutil.rmtree(meta, ignore_errors=True)
    return p.returncode, p.stdout + p.stderr


def tlc_stats(out):
    ms = re.findall(r"(\d+) states generated, (\d+) distinct states found, \d+ states? left on queue\.\s*$", out, re.M)
    if not ms:
        return None
    return {"generated": int(ms[-1][0]), "distinct": int(ms[-1][1])}


def tlc_violation(out):
    """Name of the violated invariant / property, or None. Raises Inconclusive on TLC errors."""
    m = re.search(r"Error: Invariant (\S+) is violated", out)
    if m:
        return m.group(1)
    m = re.search(r"Error: Action property (\S+) is violated", out)
    if m:
        return m.group(1)
    m = re.search(r"Error: Temporal properties were violated", out)
    if m:
        return "temporal"
    if "Deadlock reached" in out:
        return "deadlock"
    return None


def tlc_failed(out, rc):
    if rc == 124:
        return "timeout"
    if "java.lang.StackOverflowError" in out:
        return "stack overflow"
    if "OutOfMemoryError" in out:
        return "out of memory"
    if "Parsing or semantic analysis failed" in out:
        return "parse error"
    m = re.search(r"Error: (TLC threw|Evaluating|The .* argument|In evaluation|Attempted|The exception)[^\n]*", out)
    if m:
        return "evaluation error: " + m.group(0)[:300]
    return None


def copy_specs(workdir, names):
    for n in names:
        shutil.copyfile(os.path.join(SPECS, n), os.path.join(workdir, n))


def write_cfg(path, spec, constants, invariants=(), properties=(), constraint=None, view=None,
              postcondition=None, deadlock=False):
    lines = ["SPECIFICATION " + spec, "CONSTANTS"]
    for k, v in constants.items():
        lines.append("  %s %s" % (k, v) if v.startswith("<-") else "  %s = %s" % (k, v))
    if constraint:
        lines.append("CONSTRAINT " + constraint)
    if view:
        lines.append("VIEW " + view)
    if invariants:
        lines.append("INVARIANTS")
        lines += ["  " + i for i in invariants]
    if properties:
        lines.append("PROPERTIES")
        lines += ["  " + i for i in properties]
    if postcondition:
        lines.append("POSTCONDITION " + postcondition)
    lines.append("CHECK_DEADLOCK " + ("TRUE" if deadlock else "FALSE"))
    open(path, "w").write("\n".join(lines) + "\n")


def tla_set(items):
    return "{" + ", ".join('"%s"' % i for i in items) + "}"


def write_evidence(prop, tier, level, coverage, wall, violations, assumptions):
    os.makedirs(EVID, exist_ok=True)
    ev = {"property_id": prop, "tier": tier, "seed": seed(), "level": level, "coverage": coverage,
          "assumptions": assumptions, "wall_s": round(wall, 2), "violations": violations}
    path = os.path.join(EVID, prop + ".json")
    with open(path, "w") as f:
        json.dump(ev, f, indent=1, sort_keys=True)
    return path


def load_known():
    p = os.path.join(VERIF, "known_findings.json")
    if not os.path.exists(p):
        return []
    return json.load(open(p))


def save_replay(prop, name, payload):
    d = os.path.join(OUT, "replay")
    os.makedirs(d, exist_ok=True)
    path = os.path.join(d, "%s-%s.json" % (prop, name))
    with open(path, "w") as f:
        json.dump(payload, f, indent=1)
    return path


def run_parallel(cmds, timeout, cwd=None, env=None):
    """Run commands concurrently; returns list of (rc, stdout, stderr)."""
    procs = []
    for c in cmds:
        procs.append(subprocess.Popen(c, cwd=cwd, env=env, stdout=subprocess.PIPE, stderr=subprocess.PIPE, text=True))
    res = []
    deadline = time.time() + timeout
    for p in procs:
        try:
            o, e = p.communicate(timeout=max(1, deadline - time.time()))
            res.append((p.returncode, o, e))
        except subprocess.TimeoutExpired:
            p.kill()
            o, e = p.communicate()
            res.append((124, o, e))
    return res
