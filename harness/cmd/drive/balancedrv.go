package main

// Balance-cache driver (BalanceCache.tla, ./check B01): the REAL notary server wired to a real AccountingBook,
// Hippocampus and Flashback (the world of the notary driver). Balance requests - by the owner, by somebody else,
// with somebody else's address as data - interleaved with transfers, contracts, confirmations and rejections.
// Every Balance event records the reply and what a direct CalculateBalance answers at that time; every sealing
// call records whether the ledger now holds the transaction. BalanceCacheTrace.tla judges each recorded step.

import (
	"bufio"
	"bytes"
	"context"
	"encoding/json"
	"fmt"
	"os"
	"runtime/pprof"
	"strings"
	"sync"
	"time"

	"github.com/bartossh/Computantis/src/cache"
	"github.com/bartossh/Computantis/src/dataprovider"
	"github.com/bartossh/Computantis/src/notaryserver"
	pb "github.com/bartossh/Computantis/src/protobufcompiled"
	"github.com/bartossh/Computantis/src/spice"
	"github.com/bartossh/Computantis/src/transaction"
	"github.com/bartossh/Computantis/src/transformers"
	"github.com/bartossh/Computantis/src/wallet"
)

type bOp struct {
	Op   string `json:"op"` // bal | propose | confirm | reject | lift
	A    string `json:"a,omitempty"`
	By   string `json:"by,omitempty"`
	D    string `json:"d,omitempty"`
	Iss  string `json:"iss,omitempty"`
	Rcv  string `json:"rcv,omitempty"`
	Amt  uint64 `json:"amt,omitempty"`
	Data bool   `json:"data,omitempty"`
	K    int    `json:"k,omitempty"`    // confirm / reject: index of the proposal in this behaviour
	Hold bool   `json:"hold,omitempty"` // bal: the save goroutine of this request is held back until the next "land"
}

type bBehaviour struct {
	ID  string `json:"id"`
	Ops []bOp  `json:"ops"`
}

// heldCache is the real Hippocampus with a gate in front of SaveBalance: the notary saves a computed balance from a
// goroutine it starts after replying, and the driver decides when that goroutine lands (observation O-B2).
type heldCache struct {
	*cache.Hippocampus
	mu      sync.Mutex
	hold    bool
	waiting []chan struct{}
}

func (h *heldCache) SaveBalance(a string, s spice.Melange) error {
	h.mu.Lock()
	if h.hold {
		ch := make(chan struct{})
		h.waiting = append(h.waiting, ch)
		h.mu.Unlock()
		<-ch
	} else {
		h.mu.Unlock()
	}
	return h.Hippocampus.SaveBalance(a, s)
}

func (h *heldCache) setHold(v bool) {
	h.mu.Lock()
	h.hold = v
	h.mu.Unlock()
}

// release lets every held save land and waits until the cache has them.
func (h *heldCache) release() int {
	h.mu.Lock()
	ws := h.waiting
	h.waiting = nil
	h.mu.Unlock()
	for _, ch := range ws {
		close(ch)
	}
	return len(ws)
}

func (h *heldCache) held() int {
	h.mu.Lock()
	defer h.mu.Unlock()
	return len(h.waiting)
}

// settleB waits until no goroutine of the notary server is left except the save goroutines parked at the gate.
func settleB() {
	for i := 0; i < 2000; i++ {
		var buf bytes.Buffer
		_ = pprof.Lookup("goroutine").WriteTo(&buf, 2)
		busy := false
		for _, g := range strings.Split(buf.String(), "\n\n") {
			if strings.Contains(g, "Computantis/src/notaryserver.") && !strings.Contains(g, "heldCache") {
				busy = true
				break
			}
		}
		if !busy {
			return
		}
		time.Sleep(200 * time.Microsecond)
	}
}

func (w *nWorld) ledgerBalance(addr string) int64 {
	b, err := w.ab.CalculateBalance(context.Background(), w.wl[addr].Address())
	if err != nil || b.Spice.SupplementaryCurrency != 0 || b.Spice.Currency > 2000000000 {
		return -1
	}
	return int64(b.Spice.Currency)
}

func (w *nWorld) isSealed(t *transaction.Transaction) bool {
	_, err := w.ab.ReadTransactionByHash(context.Background(), t.Hash)
	return err == nil
}

func runBalanceBehaviour(b *bBehaviour, enc *json.Encoder) error {
	w, err := newNWorld(json.NewEncoder(bytes.NewBuffer(nil)))
	if err != nil {
		return err
	}
	defer w.close()
	ctx := context.Background()
	hc := &heldCache{Hippocampus: w.hc}
	dctx, dcancel := context.WithCancel(ctx)
	defer dcancel()
	w.srv = notaryserver.VerifNew(nil, dataprovider.New(dctx, dataprovider.Config{Longevity: 1}), teleStub{}, nopLogger{}, wallet.NewVerifier(),
		w.ab, hc, w.fl, w.jug, "url", 4096)
	defer hc.release()
	_ = enc.Encode(map[string]any{"e": "Reset", "id": b.ID})
	var made []*transaction.Transaction
	for _, op := range b.Ops {
		switch op.Op {
		case "land":
			n := hc.release()
			hc.setHold(false)
			settleB()
			_ = enc.Encode(map[string]any{"e": "Land", "n": n})
		case "bal":
			hc.setHold(op.Hold)
			before := hc.held()
			ref := w.ledgerBalance(op.A)
			var sp *pb.Spice
			err := safely(func() error {
				var e error
				sp, e = w.srv.Balance(ctx, w.signedHash(op.A, []byte(w.wl[op.D].Address()), op.By))
				return e
			})
			if op.Hold {
				// the save goroutine, if one was started, has to reach the gate before the next request
				for i := 0; i < 200 && err == nil && hc.held() == before; i++ {
					time.Sleep(time.Millisecond)
				}
			} else {
				settleB()
			}
			hc.setHold(false)
			val := int64(-1)
			if err == nil && sp != nil && sp.SupplementaryCurrency == 0 && sp.Currency <= 2000000000 {
				val = int64(sp.Currency)
			}
			_ = enc.Encode(map[string]any{"e": "Bal", "a": op.A, "auth": op.By == op.A && op.D == op.A, "res": notaryRes(err), "val": val, "ref": ref,
				"held": hc.held() > before})
		case "propose":
			var data []byte
			if op.Data {
				data = []byte(fmt.Sprintf("contract %d of %s", len(made), b.ID))
			}
			t, err := transaction.New(fmt.Sprintf("trx %d", len(made)), spice.New(op.Amt, 0), data, w.wl[op.Rcv].Address(), w.wl[op.Iss])
			if err != nil {
				return err
			}
			made = append(made, &t)
			p, _ := transformers.TrxToProtoTrx(t)
			err = safely(func() error { _, e := w.srv.Propose(ctx, p); return e })
			settleB()
			w.ab.VerifDrainTruncateSignal()
			_ = enc.Encode(map[string]any{"e": "Seal", "kind": "propose", "i": op.Iss, "r": op.Rcv, "k": len(made) - 1, "res": notaryRes(err),
				"sealed": err == nil && w.isSealed(&t)})
		case "confirm", "reject":
			if op.K < 0 || op.K >= len(made) {
				continue
			}
			t := *made[op.K]
			was := w.isSealed(&t)
			iss, rcv := w.nameOf(t.IssuerAddress), w.nameOf(t.ReceiverAddress)
			var err error
			if op.Op == "confirm" {
				t.ReceiverSignature = w.signAs(rcv, t.GetMessage())
				p, _ := transformers.TrxToProtoTrx(t)
				err = safely(func() error { _, e := w.srv.Confirm(ctx, p); return e })
			} else {
				h := t.Hash
				err = safely(func() error { _, e := w.srv.Reject(ctx, w.signedHash(rcv, h[:], rcv)); return e })
			}
			settleB()
			w.ab.VerifDrainTruncateSignal()
			_ = enc.Encode(map[string]any{"e": "Seal", "kind": op.Op, "i": iss, "r": rcv, "k": op.K, "res": notaryRes(err),
				"sealed": err == nil && !was && w.isSealed(&t)})
		case "lift":
			for _, wl := range w.wl {
				_ = w.fl.RemoveAddress(wl.Address())
			}
			_ = enc.Encode(map[string]any{"e": "Lift"})
		default:
			return fmt.Errorf("unknown op %q", op.Op)
		}
	}
	return nil
}

func (w *nWorld) nameOf(addr string) string {
	for n, wl := range w.wl {
		if wl.Address() == addr {
			return n
		}
	}
	return "?"
}

// balanceMain: drive balance <behaviours.ndjson> <trace.ndjson>
func balanceMain(args []string) {
	if len(args) != 2 {
		fatal("usage: drive balance <behaviours.ndjson> <trace.ndjson>")
	}
	in, err := os.Open(args[0])
	if err != nil {
		fatal("%v", err)
	}
	outf, err := os.Create(args[1])
	if err != nil {
		fatal("%v", err)
	}
	bw := bufio.NewWriterSize(outf, 1<<20)
	enc := json.NewEncoder(bw)
	sc := bufio.NewScanner(in)
	sc.Buffer(make([]byte, 1<<20), 1<<26)
	n := 0
	for sc.Scan() {
		line := bytes.TrimSpace(sc.Bytes())
		if len(line) == 0 {
			continue
		}
		var b bBehaviour
		if err := json.Unmarshal(line, &b); err != nil {
			fatal("behaviour %d: %v", n, err)
		}
		if err := runBalanceBehaviour(&b, enc); err != nil {
			fatal("behaviour %s: %v", b.ID, err)
		}
		n++
	}
	bw.Flush()
	outf.Close()
	fmt.Printf("{\"behaviours\":%d}\n", n)
	os.Exit(0)
}
