package main

// Ledger driver: executes behaviours (sequences of abstract Ledger.tla actions) on real
// accountant.AccountingBook instances and records one NDJSON event per executed action with the
// observed result class and the projected abstract state.  The driver projects and executes; it
// does not judge: every verdict about the recorded steps is made by TLC from LedgerTrace.tla.

import (
	"bufio"
	"bytes"
	"context"
	"crypto/ed25519"
	"crypto/sha256"
	"encoding/binary"
	"encoding/json"
	"errors"
	"fmt"
	"math/big"
	"os"
	"runtime"
	"sort"
	"strings"
	"sync"
	"time"

	"github.com/bartossh/Computantis/src/accountant"
	"github.com/bartossh/Computantis/src/spice"
	"github.com/bartossh/Computantis/src/transaction"
	"github.com/bartossh/Computantis/src/wallet"
)

type nopLogger struct{}

func (nopLogger) Debug(string) {}
func (nopLogger) Info(string)  {}
func (nopLogger) Warn(string)  {}
func (nopLogger) Error(string) {}
func (nopLogger) Fatal(string) {}

// ---- behaviour format ----

type trxSpec struct {
	ID   string `json:"id"`
	Iss  string `json:"iss"`
	Rcv  string `json:"rcv"`
	Amt  int64  `json:"amt"`
	Data bool   `json:"data"`
	NC   bool   `json:"nc"` // the amount is encoded non canonically (supplementary >= 10^18)
}

type ledgerCfg struct {
	Nodes      []string   `json:"nodes"`
	Wallets    []string   `json:"wallets"`
	GR         string     `json:"gr"`
	Supply     int64      `json:"supply"`
	TruncDepth uint64     `json:"truncDepth"`
	Unit       [2]uint64  `json:"unit"`
	Trx        []trxSpec  `json:"trx"`
	Extra      jsonObject `json:"extra,omitempty"`
}

type jsonObject map[string]any

type ledgerOp struct {
	Op string `json:"op"`
	N  string `json:"n,omitempty"`
	M  string `json:"m,omitempty"`
	T  string `json:"t,omitempty"`
	V  int    `json:"v,omitempty"` // model vertex id
	S  string `json:"s,omitempty"`
	L  int    `json:"l,omitempty"`
	R  int    `json:"r,omitempty"`
	W  uint64 `json:"w,omitempty"`
	A  string `json:"a,omitempty"`
	Wl string `json:"wl,omitempty"`
	K  string `json:"k,omitempty"`  // handle of a split operation
	Id int    `json:"id,omitempty"` // model id of the vertex this op creates
	// mutations for crafted vertices
	Bad    string `json:"bad,omitempty"`    // "", "sig", "hash"
	Cut    int    `json:"cut,omitempty"`    // stream corruption position
	Kind   string `json:"kind,omitempty"`   // stream corruption kind
	Times  int    `json:"times,omitempty"`  // repetition
	At     int    `json:"at,omitempty"`     // truncate: start racing balance queries at this inspection of the context
	Cancel int    `json:"cancel,omitempty"` // truncate: the context is cancelled at this inspection (shutdown in the middle of a truncation)
	Old    bool   `json:"old,omitempty"`    // craft: the vertex was sealed five minutes ago
}

type behaviour struct {
	ID  string     `json:"id"`
	Cfg ledgerCfg  `json:"cfg"`
	Ops []ledgerOp `json:"ops"`
}

// ---- world ----

type node struct {
	name   string
	w      *wallet.Wallet
	ab     *accountant.AccountingBook
	cancel context.CancelFunc
}

type pendingOp struct {
	kind   string // "P" or "D"
	node   string
	t      string
	v      int
	rep    int
	cancel int
	atGate chan struct{}
	go_    chan struct{}
	done   chan struct{}
	vrx    accountant.Vertex
	err    error
	panicv any
	gated  bool
}

type world struct {
	cfg      ledgerCfg
	unit     *big.Int
	wallets  map[string]*wallet.Wallet
	addrName map[string]string
	pub      map[string]ed25519.PublicKey
	nodes    map[string]*node
	trx      map[string]*transaction.Transaction
	trxName  map[[32]byte]string
	vtx      []accountant.Vertex // index = real world id - 1
	vid      map[[32]byte]int
	model2id map[int]int // model vertex id -> real world id
	pending  map[string]*pendingOp
	starting *pendingOp
	out      *json.Encoder
	nEvents  int
	ctx      context.Context
}

var e18 = new(big.Int).Exp(big.NewInt(10), big.NewInt(18), nil)

func melTotal(m spice.Melange) *big.Int {
	t := new(big.Int).SetUint64(m.Currency)
	t.Mul(t, e18)
	return t.Add(t, new(big.Int).SetUint64(m.SupplementaryCurrency))
}

func (w *world) toMelange(k int64) spice.Melange {
	t := new(big.Int).Mul(big.NewInt(k), w.unit)
	c, s := new(big.Int).QuoRem(t, e18, new(big.Int))
	return spice.Melange{Currency: c.Uint64(), SupplementaryCurrency: s.Uint64()}
}

// toUnits converts a Melange back to model units; ok is false when it is not a whole multiple.
func (w *world) toUnits(m spice.Melange) (int64, bool) {
	q, r := new(big.Int).QuoRem(melTotal(m), w.unit, new(big.Int))
	if r.Sign() != 0 || !q.IsInt64() || q.Int64() > 1<<30 {
		return -1, false
	}
	return q.Int64(), true
}

func newWorld(cfg ledgerCfg, out *json.Encoder) (*world, error) {
	w := &world{
		cfg: cfg, wallets: map[string]*wallet.Wallet{}, addrName: map[string]string{},
		pub: map[string]ed25519.PublicKey{}, nodes: map[string]*node{},
		trx: map[string]*transaction.Transaction{}, trxName: map[[32]byte]string{},
		vid: map[[32]byte]int{}, model2id: map[int]int{}, pending: map[string]*pendingOp{},
		out: out, ctx: context.Background(),
	}
	u := melTotal(spice.Melange{Currency: cfg.Unit[0], SupplementaryCurrency: cfg.Unit[1]})
	if u.Sign() == 0 {
		u = big.NewInt(1)
	}
	w.unit = u
	for _, name := range cfg.Wallets {
		wl, err := wallet.New()
		if err != nil {
			return nil, err
		}
		w.wallets[name] = &wl
		w.addrName[wl.Address()] = name
		w.pub[wl.Address()] = wl.Public
	}
	for _, name := range cfg.Nodes {
		if _, ok := w.wallets[name]; !ok {
			return nil, fmt.Errorf("node %s has no wallet", name)
		}
		if err := w.newNode(name); err != nil {
			return nil, err
		}
	}
	for _, ts := range cfg.Trx {
		iss, ok := w.wallets[ts.Iss]
		rcv, ok2 := w.wallets[ts.Rcv]
		if !ok || !ok2 {
			return nil, fmt.Errorf("trx %s names unknown wallet", ts.ID)
		}
		var data []byte
		if ts.Data {
			data = []byte("contract payload of " + ts.ID)
		}
		amount := w.toMelange(ts.Amt)
		if ts.NC {
			// the same value with one unit of currency moved into the supplementary part
			if amount.Currency == 0 {
				amount.Currency = 1
			}
			amount = spice.Melange{Currency: amount.Currency - 1, SupplementaryCurrency: amount.SupplementaryCurrency + 1000000000000000000}
		}
		t, err := transaction.New("subject "+ts.ID, amount, data, rcv.Address(), iss)
		if err != nil {
			return nil, err
		}
		w.trx[ts.ID] = &t
		w.trxName[t.Hash] = ts.ID
		time.Sleep(time.Microsecond) // distinct timestamps
	}
	accountant.VerifTruncateDepth = cfg.TruncDepth
	accountant.VerifGate = w.gate
	return w, nil
}

func (w *world) newNode(name string) error {
	// The book is created with a context that is cancelled at once: the three background loops
	// (retry ticker, retry subscriber, truncation loop) exit and the driver runs their bodies
	// synchronously through the hooks, so that every state change is an event of the trace.
	ctx, cancel := context.WithCancel(context.Background())
	ab, err := accountant.NewAccountingBook(ctx, accountant.Config{}, wallet.NewVerifier(), w.wallets[name], nopLogger{})
	if err != nil {
		cancel()
		return err
	}
	cancel()
	time.Sleep(2 * time.Millisecond)
	w.nodes[name] = &node{name: name, w: w.wallets[name], ab: ab, cancel: cancel}
	return nil
}

func (w *world) close() {
	accountant.VerifGate = nil
	for _, n := range w.nodes {
		n.ab.VerifClose()
	}
}

func (w *world) gate(point string) {
	p := w.starting
	if p == nil {
		return
	}
	w.starting = nil
	p.gated = true
	close(p.atGate)
	<-p.go_
}

// ---- projection ----

func (w *world) name(addr string) string {
	if addr == "" {
		return "none"
	}
	if n, ok := w.addrName[addr]; ok {
		return n
	}
	return "unknown:" + addr
}

func vertexData(v *accountant.Vertex) []byte {
	blockData := make([]byte, 0, 16)
	blockData = binary.LittleEndian.AppendUint64(blockData, uint64(v.CreatedAt.UnixNano()))
	blockData = binary.LittleEndian.AppendUint64(blockData, v.Weight)
	return bytes.Join([][]byte{v.Transaction.Hash[:], v.LeftParentHash[:], v.RightParentHash[:], blockData}, nil)
}

func vertexDigest(v *accountant.Vertex) [32]byte { return sha256.Sum256(vertexData(v)) }

// selfAuthentic recomputes hash and signatures of a vertex independently of the repository's verifier.
func (w *world) selfAuthentic(v *accountant.Vertex) bool {
	d := vertexDigest(v)
	if d != v.Hash {
		return false
	}
	pk, ok := w.pub[v.SignerPublicAddress]
	if !ok || !ed25519.Verify(pk, d[:], v.Signature) {
		return false
	}
	t := &v.Transaction
	td := sha256.Sum256(t.GetMessage())
	if td != t.Hash {
		return false
	}
	ipk, ok := w.pub[t.IssuerAddress]
	if !ok || !ed25519.Verify(ipk, td[:], t.IssuerSignature) {
		return false
	}
	if len(t.ReceiverSignature) != 0 {
		rpk, ok := w.pub[t.ReceiverAddress]
		if !ok || !ed25519.Verify(rpk, td[:], t.ReceiverSignature) {
			return false
		}
	}
	return true
}

func sameVertex(a, b *accountant.Vertex) bool {
	return a.Hash == b.Hash && a.LeftParentHash == b.LeftParentHash && a.RightParentHash == b.RightParentHash &&
		a.Weight == b.Weight && a.SignerPublicAddress == b.SignerPublicAddress &&
		a.CreatedAt.UnixNano() == b.CreatedAt.UnixNano() && bytes.Equal(a.Signature, b.Signature) &&
		sameTrx(&a.Transaction, &b.Transaction)
}

func sameTrx(a, b *transaction.Transaction) bool {
	return a.Hash == b.Hash && a.IssuerAddress == b.IssuerAddress && a.ReceiverAddress == b.ReceiverAddress &&
		a.Subject == b.Subject && bytes.Equal(a.Data, b.Data) && a.CreatedAt.UnixNano() == b.CreatedAt.UnixNano() &&
		bytes.Equal(a.IssuerSignature, b.IssuerSignature) && bytes.Equal(a.ReceiverSignature, b.ReceiverSignature) &&
		a.Spice == b.Spice
}

type stProj struct {
	Live    []int            `json:"live"`
	Edges   [][2]int         `json:"edges"`
	Tips    []int            `json:"tips"`
	Roots   []int            `json:"roots"`
	Stored  []int            `json:"stored"`
	Ck      map[string]int64 `json:"ck"`
	Index   [][2]any         `json:"index"`
	Trusted []string         `json:"trusted"`
	Parked  [][2]int         `json:"parked"`
	Wgt     uint64           `json:"wgt"`
	Thr     uint64           `json:"thr"`
	Loaded  bool             `json:"loaded"`
	Gen     string           `json:"gen"`
	KeyOK   bool             `json:"keyok"`  // every graph / store key equals the hash of the vertex under it
	AuthOK  bool             `json:"authok"` // every held vertex re-authenticates (hash + all signatures)
	SameOK  bool             `json:"sameok"` // every held vertex is identical to the one that was created
	Alien   []string         `json:"alien"`  // hashes / addresses / amounts the driver cannot name
}

func (w *world) idOf(key string, alien *[]string) int {
	var h [32]byte
	if len(key) != 32 {
		*alien = append(*alien, fmt.Sprintf("key:%x", key))
		return -1
	}
	copy(h[:], key)
	id, ok := w.vid[h]
	if !ok {
		*alien = append(*alien, fmt.Sprintf("vertex:%x", key[:6]))
		return -1
	}
	return id
}

func (w *world) project(n *node) (*stProj, error) {
	s, err := n.ab.VerifSnapshot()
	if err != nil {
		return nil, err
	}
	p := &stProj{Ck: map[string]int64{}, KeyOK: true, AuthOK: true, SameOK: true,
		Live: []int{}, Edges: [][2]int{}, Tips: []int{}, Roots: []int{}, Stored: []int{},
		Index: [][2]any{}, Trusted: []string{}, Parked: [][2]int{}, Alien: []string{}}
	check := func(key string, v *accountant.Vertex) int {
		id := w.idOf(key, &p.Alien)
		if key != string(v.Hash[:]) {
			p.KeyOK = false
		}
		if !w.selfAuthentic(v) {
			p.AuthOK = false
		}
		if id > 0 && !sameVertex(v, &w.vtx[id-1]) {
			p.SameOK = false
		}
		return id
	}
	for k, v := range s.Live {
		v := v
		p.Live = append(p.Live, check(k, &v))
	}
	for k, v := range s.Stored {
		v := v
		p.Stored = append(p.Stored, check(k, &v))
	}
	for _, k := range s.StoredBroken {
		p.Alien = append(p.Alien, fmt.Sprintf("undecodable:%x", k[:6]))
	}
	for _, e := range s.Edges {
		p.Edges = append(p.Edges, [2]int{w.idOf(string(e.Parent[:]), &p.Alien), w.idOf(string(e.Child[:]), &p.Alien)})
	}
	for _, k := range s.Tips {
		p.Tips = append(p.Tips, w.idOf(k, &p.Alien))
	}
	for _, k := range s.Roots {
		p.Roots = append(p.Roots, w.idOf(k, &p.Alien))
	}
	for _, name := range w.cfg.Wallets {
		p.Ck[name] = 0
	}
	for addr, m := range s.Funds {
		name := w.name(addr)
		u, ok := w.toUnits(m)
		if !ok || name[:min(8, len(name))] == "unknown:" {
			p.Alien = append(p.Alien, fmt.Sprintf("funds:%s=%d.%d", name, m.Currency, m.SupplementaryCurrency))
			continue
		}
		p.Ck[name] = u
	}
	for th, vh := range s.Index {
		var h [32]byte
		copy(h[:], th)
		tn, ok := w.trxName[h]
		if !ok || len(th) != 32 {
			p.Alien = append(p.Alien, fmt.Sprintf("trx:%x", th))
			continue
		}
		p.Index = append(p.Index, [2]any{tn, w.idOf(vh, &p.Alien)})
	}
	for _, a := range s.Trusted {
		p.Trusted = append(p.Trusted, w.name(a))
	}
	for _, m := range s.Parked {
		p.Parked = append(p.Parked, [2]int{w.idOf(string(m.Vertex.Hash[:]), &p.Alien), m.Repeated})
	}
	sort.Ints(p.Live)
	sort.Ints(p.Stored)
	sort.Ints(p.Tips)
	sort.Ints(p.Roots)
	sort.Strings(p.Trusted)
	sort.Slice(p.Edges, func(i, j int) bool {
		if p.Edges[i][0] != p.Edges[j][0] {
			return p.Edges[i][0] < p.Edges[j][0]
		}
		return p.Edges[i][1] < p.Edges[j][1]
	})
	sort.Slice(p.Index, func(i, j int) bool { return p.Index[i][0].(string) < p.Index[j][0].(string) })
	p.Wgt, p.Thr, p.Loaded, p.Gen = s.Weight, s.Throughput, s.Loaded, w.name(s.Genesis)
	return p, nil
}

// ---- events ----

type event map[string]any

func (w *world) emit(e event) {
	w.nEvents++
	if err := w.out.Encode(e); err != nil {
		fatal("writing trace: %v", err)
	}
}

func (w *world) emitSt(e event, n *node) {
	st, err := w.project(n)
	if err != nil {
		e["sterr"] = err.Error()
	} else {
		e["st"] = st
	}
	w.emit(e)
}

func (w *world) vtxRec(id int) event {
	v := &w.vtx[id-1]
	t := &v.Transaction
	tn, ok := w.trxName[t.Hash]
	if !ok {
		tn = fmt.Sprintf("unknown:%x", t.Hash[:6])
	}
	amt, _ := w.toUnits(t.Spice)
	par := func(h [32]byte) int {
		if h == ([32]byte{}) {
			return 0
		}
		if id, ok := w.vid[h]; ok {
			return id
		}
		return -1
	}
	return event{"id": id, "sealer": w.name(v.SignerPublicAddress), "l": par(v.LeftParentHash), "r": par(v.RightParentHash),
		"w": v.Weight, "ok": w.selfAuthentic(v),
		"trx": event{"id": tn, "iss": w.name(t.IssuerAddress), "rcv": w.name(t.ReceiverAddress), "amt": amt, "data": t.IsContract(),
			"nc": t.Spice.SupplementaryCurrency >= 1000000000000000000}}
}

func (w *world) addVertex(v accountant.Vertex, modelID int) int {
	w.vtx = append(w.vtx, v)
	id := len(w.vtx)
	w.vid[v.Hash] = id
	if modelID != 0 {
		w.model2id[modelID] = id
	}
	return id
}

var errTipInvalid = errors.New("a tip failed validation")

// matched by text so that the driver builds against trees with and without the guard
func isNonCanonical(err error) bool { return strings.Contains(err.Error(), "not canonical") }

func classify(err error, pv any) string {
	if pv != nil {
		return "panic"
	}
	if err == nil {
		return "ok"
	}
	switch {
	case err == errTipInvalid:
		return "tipinvalid"
	case errors.Is(err, accountant.ErrParentDoesNotExists):
		return "parentmissing"
	case errors.Is(err, accountant.ErrDagIsNotLoaded):
		return "notloaded"
	case errors.Is(err, accountant.ErrTrxIsEmpty):
		return "empty"
	case isNonCanonical(err):
		return "noncanonical"
	case errors.Is(err, accountant.ErrCannotTransferFoundsViaOwnedNode):
		return "ownnode"
	case errors.Is(err, accountant.ErrCannotTransferFoundsFromGenesisWallet):
		return "genesisissuer"
	case errors.Is(err, accountant.ErrLeafAlreadyExists):
		return "exists"
	case errors.Is(err, accountant.ErrLeafRejected), errors.Is(err, accountant.ErrNewLeafRejected):
		return "rejected"
	case errors.Is(err, accountant.ErrGenesisRejected):
		return "rejected"
	case errors.Is(err, accountant.ErrUnexpected):
		// under the lock a failed index insert is reported as ErrUnexpected joined with the cause
		return "unexpected"
	case errors.Is(err, accountant.ErrTrxInVertexAlreadyExists):
		return "trxexists"
	case errors.Is(err, accountant.ErrLeafValidationProcessStopped), errors.Is(err, accountant.ErrLeafBallanceCalculationProcessStopped):
		return "stopped"
	}
	return "error"
}

const opTimeout = 45 * time.Second

// wedgeTimer fires when an operation that takes milliseconds has not returned for opTimeout (times k). On a machine
// that is heavily overloaded (load average above twice the cores) it keeps waiting, up to six times as long: a
// truncation writes a badger backup through a dozen goroutines with 32 MB buffers each and has been seen to take
// minutes at load 200, which is slowness, not a wedge.
func wedgeTimer(k int) <-chan time.Time {
	ch := make(chan time.Time, 1)
	go func() {
		base := time.Duration(k) * opTimeout
		time.Sleep(base)
		for waited := base; waited < 6*base && overloaded(); waited += 5 * time.Second {
			time.Sleep(5 * time.Second)
		}
		ch <- time.Now()
	}()
	return ch
}

func overloaded() bool {
	b, err := os.ReadFile("/proc/loadavg")
	if err != nil {
		return false
	}
	var l1 float64
	if _, err := fmt.Sscanf(string(b), "%f", &l1); err != nil {
		return false
	}
	return l1 > 2*float64(runtime.NumCPU())
}

// startSplit starts a propose / deliver in its own goroutine and waits until it is parked at the
// pre-lock gate or has returned.
func (w *world) startSplit(p *pendingOp, run func()) bool {
	p.atGate, p.go_, p.done = make(chan struct{}), make(chan struct{}), make(chan struct{})
	w.starting = p
	go func() {
		defer close(p.done)
		defer func() {
			if r := recover(); r != nil {
				p.panicv = r
			}
		}()
		run()
	}()
	select {
	case <-p.atGate:
		return true
	case <-p.done:
		w.starting = nil
		return false
	case <-wedgeTimer(1):
		w.emit(event{"a": "Wedged", "n": p.node, "where": "pre"})
		return false
	}
}

func (w *world) finishSplit(p *pendingOp) bool {
	close(p.go_)
	select {
	case <-p.done:
		return true
	case <-wedgeTimer(1):
		w.emit(event{"a": "Wedged", "n": p.node, "where": "commit"})
		return false
	}
}

func (w *world) opProposePre(op ledgerOp) {
	n, t := w.nodes[op.N], w.trx[op.T]
	if n == nil || t == nil {
		return
	}
	p := &pendingOp{kind: "P", node: op.N, t: op.T, cancel: op.Cancel}
	tc := *t
	ctx := w.opCtx(op)
	gated := w.startSplit(p, func() {
		p.vrx, p.err = n.ab.CreateLeaf(ctx, &tc)
		if p.err != nil && (errors.Is(p.err, accountant.ErrLeafRejected) || errors.Is(p.err, accountant.ErrTransferringFoundsFailure) ||
			errors.Is(p.err, accountant.ErrDoubleSpending) || (op.Cancel > 0 && errors.Is(p.err, accountant.ErrLeafValidationProcessStopped))) {
			// CreateLeaf's own failures are ErrNewLeafRejected / ErrUnexpected; these classes come from validating a tip
			p.err = errTipInvalid
		}
	})
	if gated {
		w.pending[op.K] = p
		w.emit(event{"a": "ProposePre", "n": op.N, "t": op.T, "res": "pass", "k": op.K})
		return
	}
	w.emit(event{"a": "ProposePre", "n": op.N, "t": op.T, "res": classify(p.err, p.panicv), "k": op.K})
}

// opCtx is the context of the caller of a proposal or delivery: the world's, or one that is cancelled at its k-th
// inspection (a client or peer that went away while the node was validating tips).
func (w *world) opCtx(op ledgerOp) context.Context {
	if op.Cancel > 0 {
		return newCountCtx(op.Cancel)
	}
	return w.ctx
}

func (w *world) opCommit(op ledgerOp) {
	p := w.pending[op.K]
	if p == nil {
		return
	}
	delete(w.pending, op.K)
	n := w.nodes[p.node]
	if !w.finishSplit(p) {
		return
	}
	res := classify(p.err, p.panicv)
	switch p.kind {
	case "P":
		e := event{"a": "ProposeCommit", "n": p.node, "t": p.t, "res": res, "k": op.K, "new": []event{}}
		if p.cancel > 0 {
			e["cancel"] = p.cancel
		}
		if res == "ok" {
			id := w.addVertex(p.vrx, op.Id)
			e["new"] = []event{w.vtxRec(id)}
		}
		w.emitSt(e, n)
	case "D":
		e := event{"a": "DeliverCommit", "n": p.node, "v": p.v, "rep": p.rep, "res": res, "k": op.K}
		if p.cancel > 0 {
			e["cancel"] = p.cancel
		}
		w.emitSt(e, n)
	}
	w.drainSignal(n)
}

// drainSignal plays the receiving side of runTruncate: it empties the truncate signal channel.
func (w *world) drainSignal(n *node) {
	n.ab.VerifDrainTruncateSignal()
}

func (w *world) realID(model int) (int, bool) {
	id, ok := w.model2id[model]
	return id, ok
}

func (w *world) opDeliverPre(op ledgerOp) {
	n := w.nodes[op.N]
	id, ok := w.realID(op.V)
	if n == nil || !ok {
		return
	}
	p := &pendingOp{kind: "D", node: op.N, v: id, cancel: op.Cancel}
	vc := w.vtx[id-1]
	ctx := w.opCtx(op)
	gated := w.startSplit(p, func() { p.err = n.ab.AddLeaf(ctx, &vc) })
	if gated {
		w.pending[op.K] = p
		w.emit(event{"a": "DeliverPre", "n": op.N, "v": id, "res": "pass", "k": op.K})
		return
	}
	w.emit(event{"a": "DeliverPre", "n": op.N, "v": id, "res": classify(p.err, p.panicv), "k": op.K})
}

func (w *world) opTick(op ledgerOp) {
	n := w.nodes[op.N]
	if n == nil {
		return
	}
	popped, h, rep := n.ab.VerifRetryPop()
	if !popped {
		w.emit(event{"a": "TickPop", "n": op.N, "v": 0, "rep": 0, "res": "empty", "k": op.K})
		return
	}
	id := w.vid[h]
	p := &pendingOp{kind: "D", node: op.N, v: id, rep: rep}
	gated := w.startSplit(p, func() { p.err = n.ab.VerifRetryRun(w.ctx) })
	res := "pass"
	if gated {
		w.pending[op.K] = p
	} else {
		res = classify(p.err, p.panicv)
	}
	w.emitSt(event{"a": "TickPop", "n": op.N, "v": id, "rep": rep, "res": res, "k": op.K}, n)
}

func (w *world) opGenesis(op ledgerOp) {
	n := w.nodes[op.N]
	if n == nil {
		return
	}
	gr := w.wallets[w.cfg.GR]
	v, err := n.ab.CreateGenesis("GENESIS", w.toMelange(w.cfg.Supply), []byte{}, gr.Address())
	e := event{"a": "Genesis", "n": op.N, "res": classify(err, nil), "new": []event{}}
	if err == nil {
		w.trxName[v.Transaction.Hash] = "g"
		id := w.addVertex(v, op.Id)
		e["new"] = []event{w.vtxRec(id)}
	}
	w.emitSt(e, n)
}

func (w *world) opCraft(op ledgerOp) {
	s, t := w.wallets[op.S], w.trx[op.T]
	if s == nil || t == nil {
		return
	}
	// parent 0: no parent (a root, like the genesis vertex)
	var lh, rh [32]byte
	if op.L != 0 {
		l, ok := w.realID(op.L)
		if !ok {
			return
		}
		lh = w.vtx[l-1].Hash
	}
	if op.R != 0 {
		r, ok := w.realID(op.R)
		if !ok {
			return
		}
		rh = w.vtx[r-1].Hash
	}
	v, err := accountant.NewVertex(*t, lh, rh, op.W, s)
	if err != nil {
		return
	}
	if op.Old {
		// sealed five minutes ago and only now on its way (a peer that was cut off): re-dated and re-sealed by its sealer
		v.CreatedAt = time.Now().Add(-5 * time.Minute)
		v.Hash, v.Signature = s.Sign(vertexData(&v))
	}
	switch op.Bad {
	case "sig":
		v.Signature = append([]byte{}, v.Signature...)
		v.Signature[3] ^= 0x40
	case "weight":
		v.Weight++
	case "trxsig":
		v.Transaction.IssuerSignature = append([]byte{}, v.Transaction.IssuerSignature...)
		v.Transaction.IssuerSignature[7] ^= 1
	}
	id := w.addVertex(v, op.Id)
	w.emit(event{"a": "Craft", "new": []event{w.vtxRec(id)}})
}

// opForge offers a node a forged copy of a genuine vertex: same hash, same sealing signature, same transaction, but
// rewritten parents (kind "parents": both point at the genesis vertex), weight ("weight") or amount ("amount").
// Whatever the node has seen of the genuine vertex before, the copy is never admitted.
func (w *world) opForge(op ledgerOp) {
	n := w.nodes[op.N]
	id, ok := w.realID(op.V)
	if n == nil || !ok || len(w.vtx) == 0 {
		return
	}
	vc := w.vtx[id-1]
	switch op.Kind {
	case "weight":
		vc.Weight += 7
	case "amount":
		vc.Transaction.Spice.Currency += 1000
	default:
		vc.LeftParentHash, vc.RightParentHash = w.vtx[0].Hash, w.vtx[0].Hash
	}
	var err error
	var pv any
	done := make(chan struct{})
	go func() {
		defer close(done)
		defer func() { pv = recover() }()
		err = n.ab.AddLeaf(w.ctx, &vc)
	}()
	select {
	case <-done:
	case <-wedgeTimer(1):
		w.emit(event{"a": "Wedged", "n": op.N, "where": "forge"})
		return
	}
	w.emitSt(event{"a": "DeliverForged", "n": op.N, "v": id, "kind": op.Kind, "res": classify(err, pv)}, n)
}

// hookCtx is a context whose Done channel never closes; its at-th inspection runs a callback once.
// Ledger walks inspect the context once per visited ancestor, so the callback runs in the middle of a walk,
// while the operation holds its locks - without any hook inside the repository.
type hookCtx struct {
	context.Context
	n    int
	at   int
	fire func()
}

func (c *hookCtx) Done() <-chan struct{} {
	c.n++
	if c.n == c.at && c.fire != nil {
		c.fire()
	}
	return nil
}

func (w *world) opTruncate(op ledgerOp) {
	n := w.nodes[op.N]
	if n == nil {
		return
	}
	var err error
	var pv any
	done := make(chan struct{})
	ctx := context.Context(w.ctx)
	type raced struct {
		wl  string
		b   accountant.Balance
		err error
	}
	var races []*raced
	var rwg sync.WaitGroup
	if op.At > 0 {
		// balance queries that start while the truncation is in the middle of a walk and holds the book lock
		ctx = &hookCtx{Context: w.ctx, at: op.At, fire: func() {
			for _, name := range w.cfg.Wallets {
				r := &raced{wl: name}
				races = append(races, r)
				rwg.Add(1)
				go func() {
					defer rwg.Done()
					r.b, r.err = n.ab.CalculateBalance(context.Background(), w.wallets[r.wl].Address())
				}()
			}
			time.Sleep(3 * time.Millisecond)
		}}
	}
	if op.Cancel > 0 {
		ctx = newCountCtx(op.Cancel)
	}
	go func() {
		defer close(done)
		defer func() { pv = recover() }()
		err = n.ab.VerifTruncate(ctx)
	}()
	select {
	case <-done:
	case <-wedgeTimer(1):
		w.emit(event{"a": "Wedged", "n": op.N, "where": "truncate"})
		return
	}
	res := "ok"
	if pv != nil {
		res = "panic"
	} else if err != nil {
		res = "error"
	}
	if op.Cancel > 0 {
		// the node's root context is gone: the process is on its way out, the book takes no further operation
		if op.Kind == "cont" {
			w.emitSt(event{"a": "TruncateCancelled", "n": op.N, "res": res, "k": op.Cancel, "cont": true}, n)
			return
		}
		w.emitSt(event{"a": "TruncateCancelled", "n": op.N, "res": res, "k": op.Cancel}, n)
		n.ab.VerifClose()
		delete(w.nodes, op.N)
		return
	}
	w.emitSt(event{"a": "Truncate", "n": op.N, "res": res}, n)
	if op.At > 0 {
		rwg.Wait()
		for _, r := range races {
			e := event{"a": "BalanceRaced", "n": op.N, "wl": r.wl, "res": "ok", "val": 0}
			if r.err != nil {
				e["res"] = "error"
			} else if u, ok := w.toUnits(r.b.Spice); ok {
				e["val"] = u
			} else {
				e["res"] = "nonunit"
			}
			w.emit(e)
		}
	}
}

func (w *world) opBalance(op ledgerOp) {
	n, wl := w.nodes[op.N], w.wallets[op.Wl]
	if n == nil {
		return
	}
	addr := "never-seen-address-" + op.Wl
	if wl != nil {
		addr = wl.Address()
	}
	before, _ := w.project(n)
	b, err := n.ab.CalculateBalance(w.ctx, addr)
	after, _ := w.project(n)
	e := event{"a": "Balance", "n": op.N, "wl": op.Wl, "res": "ok", "val": 0, "unchanged": sameJSON(before, after)}
	if err != nil {
		e["res"] = "error"
	} else {
		u, ok := w.toUnits(b.Spice)
		if !ok {
			e["res"] = "nonunit"
		}
		e["val"] = u
		if b.WalletPublicAddress != addr {
			e["res"] = "wrongaddress"
		}
	}
	w.emit(e)
}

func (w *world) opHistory(op ledgerOp) {
	n, wl := w.nodes[op.N], w.wallets[op.Wl]
	if n == nil {
		return
	}
	addr := "never-seen-address-" + op.Wl
	if wl != nil {
		addr = wl.Address()
	}
	before, _ := w.project(n)
	trxs, err := n.ab.ReadDAGTransactionsByAddress(w.ctx, addr)
	after, _ := w.project(n)
	e := event{"a": "History", "n": op.N, "wl": op.Wl, "res": "ok", "out": []string{}, "nodup": true, "unchanged": sameJSON(before, after)}
	if err != nil {
		e["res"] = "error"
	} else {
		seen := map[string]bool{}
		out := []string{}
		for i := range trxs {
			name, ok := w.trxName[trxs[i].Hash]
			if !ok {
				name = fmt.Sprintf("unknown:%x", trxs[i].Hash[:6])
			} else if name != "g" && !sameTrx(&trxs[i], w.trx[name]) {
				name = "altered:" + name
			}
			if seen[name] {
				e["nodup"] = false
			}
			seen[name] = true
			out = append(out, name)
		}
		e["out"] = out
	}
	w.emit(e)
}

func sameJSON(a, b any) bool {
	x, _ := json.Marshal(a)
	y, _ := json.Marshal(b)
	return bytes.Equal(x, y)
}

func (w *world) opReadTrx(op ledgerOp) {
	n, t := w.nodes[op.N], w.trx[op.T]
	if n == nil || t == nil {
		return
	}
	got, err := n.ab.ReadTransactionByHash(w.ctx, t.Hash)
	e := event{"a": "ReadTrx", "n": op.N, "t": op.T, "res": "ok", "same": true}
	if err != nil {
		e["res"] = "notfound"
	} else {
		e["same"] = sameTrx(&got, t)
	}
	w.emit(e)
}

func (w *world) opReadVtx(op ledgerOp) {
	n := w.nodes[op.N]
	id, ok := w.realID(op.V)
	if n == nil || !ok {
		return
	}
	got, err := n.ab.ReadVertex(w.ctx, w.vtx[id-1].Hash)
	e := event{"a": "ReadVertex", "n": op.N, "v": id, "res": "ok", "same": true}
	if err != nil {
		e["res"] = "notfound"
	} else {
		e["same"] = sameVertex(&got, &w.vtx[id-1])
	}
	w.emit(e)
}

func (w *world) opTrust(op ledgerOp, add bool) {
	n, a := w.nodes[op.N], w.wallets[op.A]
	if n == nil || a == nil {
		return
	}
	var err error
	name := "Untrust"
	if add {
		name = "Trust"
		err = n.ab.AddTrustedNode(a.Address())
	} else {
		err = n.ab.RemoveTrustedNode(a.Address())
	}
	w.emitSt(event{"a": name, "n": op.N, "addr": op.A, "res": classify(err, nil)}, n)
}

// opLoad streams the DAG of node N into node M (StreamDAG -> LoadDag), optionally corrupting the stream.
func (w *world) opLoad(op ledgerOp) {
	src, dst := w.nodes[op.N], w.nodes[op.M]
	if src == nil || dst == nil {
		return
	}
	ctx, cancelStream := context.WithCancel(context.Background())
	defer cancelStream()
	var stream []*accountant.Vertex
	timeout := wedgeTimer(1)
	ch := src.ab.StreamDAG(ctx)
recv:
	for {
		select {
		case v, ok := <-ch:
			if !ok {
				break recv
			}
			c := *v
			stream = append(stream, &c)
		case <-timeout:
			w.emit(event{"a": "Wedged", "n": op.N, "where": "stream"})
			return
		}
	}
	order := []int{}
	for _, v := range stream {
		order = append(order, w.vid[v.Hash])
	}
	kind := op.Kind
	switch kind {
	case "dupvertex":
		if op.Cut < len(stream) {
			c := *stream[op.Cut]
			stream = append(stream, &c)
			order = append(order, w.vid[c.Hash])
		}
	case "dropvertex":
		if op.Cut < len(stream) {
			stream = append(stream[:op.Cut], stream[op.Cut+1:]...)
			order = append(order[:op.Cut], order[op.Cut+1:]...)
		}
	case "extra":
		// append a vertex of the world that the source does not hold
		if id, ok := w.realID(op.V); ok {
			c := w.vtx[id-1]
			stream = append(stream, &c)
			order = append(order, id)
		}
	case "only":
		// the stream is one vertex of the world (a forged root) and nothing else
		if id, ok := w.realID(op.V); ok {
			c := w.vtx[id-1]
			stream = []*accountant.Vertex{&c}
			order = []int{id}
		}
	}
	lch := make(chan *accountant.Vertex, len(stream)+1)
	lctx, cancel := context.WithCancelCause(context.Background())
	done := make(chan struct{})
	var pv any
	if op.V != 0 && op.Kind == "during" {
		// a delivery and a proposal that arrive while the stream is still coming in: the first half of the stream is
		// handed over, the two operations are started, then the rest follows. A node that is still loading refuses both.
		half := len(stream) / 2
		for _, v := range stream[:half] {
			lch <- v
		}
		go func() {
			defer close(done)
			defer func() { pv = recover() }()
			dst.ab.LoadDag(cancel, lch)
		}()
		time.Sleep(5 * time.Millisecond)
		type during struct {
			what string
			err  error
			pv   any
			done chan struct{}
		}
		var ds []*during
		if id, ok := w.realID(op.V); ok {
			vc := w.vtx[id-1]
			d := &during{what: fmt.Sprintf("deliver %d", id), done: make(chan struct{})}
			ds = append(ds, d)
			go func() {
				defer close(d.done)
				defer func() { d.pv = recover() }()
				d.err = dst.ab.AddLeaf(context.Background(), &vc)
			}()
		}
		if t := w.trx[op.T]; t != nil {
			tc := *t
			d := &during{what: "propose " + op.T, done: make(chan struct{})}
			ds = append(ds, d)
			go func() {
				defer close(d.done)
				defer func() { d.pv = recover() }()
				_, d.err = dst.ab.CreateLeaf(context.Background(), &tc)
			}()
		}
		time.Sleep(20 * time.Millisecond)
		for _, v := range stream[half:] {
			lch <- v
		}
		close(lch)
		for _, d := range ds {
			select {
			case <-d.done:
			case <-wedgeTimer(1):
				w.emit(event{"a": "Wedged", "n": op.M, "where": "during load"})
				return
			}
			w.emit(event{"a": "DuringLoad", "n": op.M, "what": d.what, "res": classify(d.err, d.pv)})
		}
		kind = ""
	} else {
		for _, v := range stream {
			lch <- v
		}
		close(lch)
		go func() {
			defer close(done)
			defer func() { pv = recover() }()
			dst.ab.LoadDag(cancel, lch)
		}()
	}
	select {
	case <-done:
	case <-wedgeTimer(1):
		w.emit(event{"a": "Wedged", "n": op.M, "where": "load"})
		return
	}
	res := "ok"
	if pv != nil {
		res = "panic"
	} else if cause := context.Cause(lctx); cause != nil {
		res = "abort"
		if errors.Is(cause, accountant.ErrDagIsLoaded) {
			res = "alreadyloaded"
		}
	}
	cancel(nil)
	srcSt, _ := w.project(src)
	w.emitSt(event{"a": "Load", "m": op.M, "n": op.N, "order": order, "kind": kind, "res": res, "src": srcSt}, dst)
}

func (w *world) run(b *behaviour) {
	w.emit(event{"a": "Reset", "id": b.ID, "cfg": b.Cfg})
	for _, op := range b.Ops {
		times := max(1, op.Times)
		for i := 0; i < times; i++ {
			switch op.Op {
			case "genesis":
				w.opGenesis(op)
			case "ppre":
				w.opProposePre(op)
			case "dpre":
				w.opDeliverPre(op)
			case "commit":
				w.opCommit(op)
			case "propose":
				op.K = "seq"
				w.opProposePre(op)
				w.opCommit(op)
			case "deliver":
				op.K = "seq"
				w.opDeliverPre(op)
				w.opCommit(op)
			case "tick":
				op.K = "seq"
				w.opTick(op)
				w.opCommit(op)
			case "tickpre":
				w.opTick(op)
			case "craft":
				w.opCraft(op)
			case "truncate":
				w.opTruncate(op)
			case "balance":
				w.opBalance(op)
			case "history":
				w.opHistory(op)
			case "readtrx":
				w.opReadTrx(op)
			case "readvtx":
				w.opReadVtx(op)
			case "trust":
				w.opTrust(op, true)
			case "untrust":
				w.opTrust(op, false)
			case "load":
				w.opLoad(op)
			case "netload":
				w.opNetLoad(op)
			case "forge":
				w.opForge(op)
			case "compare":
				if w.nodes[op.N] != nil && w.nodes[op.M] != nil {
					w.emit(event{"a": "Compare", "n": op.N, "m": op.M})
				}
			default:
				fatal("unknown op %q", op.Op)
			}
		}
	}
	// release anything still parked at a gate so that goroutines do not outlive the behaviour
	for k, p := range w.pending {
		close(p.go_)
		<-p.done
		delete(w.pending, k)
	}
}

// ledgerMain: drive ledger <behaviours.ndjson> <trace.ndjson>
func ledgerMain(args []string) {
	if len(args) != 2 {
		fatal("usage: drive ledger <behaviours.ndjson> <trace.ndjson>")
	}
	in, err := os.Open(args[0])
	if err != nil {
		fatal("%v", err)
	}
	defer in.Close()
	outf, err := os.Create(args[1])
	if err != nil {
		fatal("%v", err)
	}
	bw := bufio.NewWriterSize(outf, 1<<20)
	enc := json.NewEncoder(bw)
	sc := bufio.NewScanner(in)
	sc.Buffer(make([]byte, 1<<20), 1<<26)
	nb := 0
	for sc.Scan() {
		line := bytes.TrimSpace(sc.Bytes())
		if len(line) == 0 {
			continue
		}
		var b behaviour
		if err := json.Unmarshal(line, &b); err != nil {
			fatal("behaviour %d: %v", nb, err)
		}
		w, err := newWorld(b.Cfg, enc)
		if err != nil {
			fatal("behaviour %s: %v", b.ID, err)
		}
		w.run(&b)
		w.close()
		bw.Flush()
		nb++
	}
	bw.Flush()
	outf.Close()
	fmt.Printf("{\"behaviours\":%d}\n", nb)
}
