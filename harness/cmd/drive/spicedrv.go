package main

// Spice driver (C05): runs the real Supply / Transfer / Drain at the real constants on the boundary
// product of the property's quantifier and on seeded random operands, and records operands and
// results limb-encoded. SpiceTrace.tla judges every record against the reference semantics.

import (
	"bufio"
	"encoding/json"
	"fmt"
	"math"
	"math/big"
	"math/rand"
	"os"
	"strconv"

	"github.com/bartossh/Computantis/src/spice"
)

const e18u = uint64(1000000000000000000)

func limbs3(x uint64) [3]int64 {
	b := new(big.Int).SetUint64(x)
	base := big.NewInt(1000000000)
	var out [3]int64
	for i := 0; i < 3; i++ {
		q, r := new(big.Int).QuoRem(b, base, new(big.Int))
		out[i] = r.Int64()
		b = q
	}
	return out
}

type melJ struct {
	C [3]int64 `json:"c"`
	S [3]int64 `json:"s"`
}

func mj(m spice.Melange) melJ { return melJ{limbs3(m.Currency), limbs3(m.SupplementaryCurrency)} }

type spiceOut struct {
	prefix string
	chunk  int
	n      int
	per    int
	f      *os.File
	bw     *bufio.Writer
	enc    *json.Encoder
	total  int
}

func (o *spiceOut) emit(v any) {
	if o.f == nil || o.n >= o.per {
		o.close()
		f, err := os.Create(fmt.Sprintf("%s_%d.ndjson", o.prefix, o.chunk))
		if err != nil {
			fatal("%v", err)
		}
		o.chunk++
		o.f, o.bw, o.n = f, bufio.NewWriterSize(f, 1<<20), 0
		o.enc = json.NewEncoder(o.bw)
	}
	_ = o.enc.Encode(v)
	o.n++
	o.total++
}

func (o *spiceOut) close() {
	if o.f != nil {
		o.bw.Flush()
		o.f.Close()
		o.f = nil
	}
}

func doSupply(o *spiceOut, m, a spice.Melange) {
	m2 := m
	err := m2.Supply(a)
	o.emit(map[string]any{"op": "supply", "m": mj(m), "a": mj(a), "ok": err == nil, "m2": mj(m2)})
}

func doTransfer(o *spiceOut, a, from, to spice.Melange, viaDrain bool) {
	f2, t2 := from, to
	var err error
	if viaDrain {
		err = f2.Drain(a, &t2)
	} else {
		err = spice.Transfer(a, &f2, &t2)
	}
	o.emit(map[string]any{"op": "transfer", "a": mj(a), "from": mj(from), "to": mj(to), "ok": err == nil,
		"from2": mj(f2), "to2": mj(t2)})
}

// spiceMain: drive spice <prefix> <seed> <tier>
func spiceMain(args []string) {
	if len(args) != 3 {
		fatal("usage: drive spice <prefix> <seed> <quick|thorough>")
	}
	sd, _ := strconv.Atoi(args[1])
	rng := rand.New(rand.NewSource(int64(sd)))
	thorough := args[2] == "thorough"
	o := &spiceOut{prefix: args[0], per: 12000}
	mx := uint64(math.MaxUint64)
	cs := []uint64{0, 1, 2, e18u - 2, e18u - 1, e18u, e18u + 1, 1<<63 - 1, 1 << 63, 1<<63 + 1, mx - e18u - 1, mx - e18u,
		mx - e18u + 1, mx - 1, mx}
	ss := []uint64{0, 1, 2, e18u / 2, e18u - 2, e18u - 1}
	var ms []spice.Melange
	for _, c := range cs {
		for _, s := range ss {
			ms = append(ms, spice.Melange{Currency: c, SupplementaryCurrency: s})
		}
	}
	for _, m := range ms {
		for _, a := range ms {
			doSupply(o, m, a)
		}
	}
	var tos []spice.Melange
	for _, c := range []uint64{0, 1, 1 << 63, mx - e18u, mx - 1, mx} {
		for _, s := range []uint64{0, 1, e18u - 1} {
			tos = append(tos, spice.Melange{Currency: c, SupplementaryCurrency: s})
		}
	}
	step := 1
	if !thorough {
		step = 5 // the quick tier takes every fifth (amount, from) pair, rotating through all of them with the seed
	}
	idx := sd % step
	for _, a := range ms {
		for _, f := range ms {
			idx++
			if idx%step != 0 {
				continue
			}
			for _, t := range tos {
				doTransfer(o, a, f, t, (idx/step)%2 == 0)
			}
		}
	}
	nrand := 20000
	if thorough {
		nrand = 600000
	}
	pick := func() spice.Melange {
		var c uint64
		switch rng.Intn(4) {
		case 0:
			c = rng.Uint64()
		case 1:
			c = cs[rng.Intn(len(cs))]
		case 2:
			c = uint64(rng.Intn(1000))
		default:
			c = mx - uint64(rng.Intn(1000))
		}
		var s uint64
		switch rng.Intn(3) {
		case 0:
			s = uint64(rng.Int63n(int64(e18u)))
		case 1:
			s = ss[rng.Intn(len(ss))]
		default:
			s = e18u - 1 - uint64(rng.Intn(1000))
		}
		return spice.Melange{Currency: c, SupplementaryCurrency: s}
	}
	for i := 0; i < nrand; i++ {
		if i%2 == 0 {
			doSupply(o, pick(), pick())
		} else {
			doTransfer(o, pick(), pick(), pick(), i%4 == 1)
		}
	}
	o.close()
	fmt.Printf("{\"events\":%d,\"chunks\":%d}\n", o.total, o.chunk)
}
