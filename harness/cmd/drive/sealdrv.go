package main

// Seal driver (C04): concretises every abstract mutation of Seal.tla on real signed vertices - every single-bit
// flip of every fixed-size field, every single-character substitution of each address, truncation / extension,
// moving bytes across adjacent field boundaries, swapping fields between two valid vertices, replacing and
// stripping signatures and addresses, seeded multi-bit flips - and offers each tampered copy to a real node.

import (
	"bufio"
	"context"
	"encoding/json"
	"fmt"
	"math/rand"
	"os"
	"strconv"
	"time"

	"github.com/bartossh/Computantis/src/accountant"
	"github.com/bartossh/Computantis/src/spice"
	"github.com/bartossh/Computantis/src/transaction"
	"github.com/bartossh/Computantis/src/wallet"
)

type sealWorld struct {
	ab                   *accountant.AccountingBook
	node, gr, i, r, s, m *wallet.Wallet
	tip                  accountant.Vertex
	enc                  *json.Encoder
	n                    int
}

func newSealWorld(enc *json.Encoder) *sealWorld {
	w := &sealWorld{enc: enc, node: newWallet(), gr: newWallet(), i: newWallet(), r: newWallet(), s: newWallet(), m: newWallet()}
	ctx, cancel := context.WithCancel(context.Background())
	ab, err := accountant.NewAccountingBook(ctx, accountant.Config{}, wallet.NewVerifier(), w.node, nopLogger{})
	if err != nil {
		fatal("%v", err)
	}
	cancel()
	w.ab = ab
	if _, err := ab.CreateGenesis("GENESIS", spice.New(1000, 0), []byte{}, w.gr.Address()); err != nil {
		fatal("%v", err)
	}
	fund, _ := transaction.New("fund issuer", spice.New(100, 0), nil, w.i.Address(), w.gr)
	tip, err := ab.CreateLeaf(context.Background(), &fund)
	if err != nil {
		fatal("%v", err)
	}
	ab.VerifDrainTruncateSignal()
	w.tip = tip
	return w
}

// honest builds a valid vertex on the current tip, sealed by a foreign node; countersigned or not
func (w *sealWorld) honest(cs bool, tag string) accountant.Vertex {
	t, err := transaction.New("subject-"+tag, spice.New(3, 5), []byte("data-"+tag), w.r.Address(), w.i)
	if err != nil {
		fatal("%v", err)
	}
	if cs {
		if _, err := t.Sign(w.r, wallet.NewVerifier()); err != nil {
			fatal("countersign: %v", err)
		}
	}
	v, _ := accountant.NewVertex(t, w.tip.Hash, w.tip.Hash, w.tip.Weight+1, w.s)
	return v
}

func signedDiffers(a, b *accountant.Vertex) bool { return !sameVertex(a, b) }

func (w *sealWorld) ledgerDigest() string {
	s, err := w.ab.VerifSnapshot()
	if err != nil {
		return "err"
	}
	return fmt.Sprintf("%d/%d/%d/%d/%d", len(s.Live), len(s.Stored), len(s.Index), len(s.Parked), len(s.Funds))
}

func (w *sealWorld) offer(abs, kind string, cs bool, orig, mut accountant.Vertex) {
	before := w.ledgerDigest()
	var err error
	var pv any
	func() {
		defer func() { pv = recover() }()
		err = w.ab.AddLeaf(context.Background(), &mut)
	}()
	w.ab.VerifDrainTruncateSignal()
	after := w.ledgerDigest()
	w.n++
	_ = w.enc.Encode(map[string]any{"abs": abs, "kind": kind, "cs": cs, "res": classify(err, pv), "unchanged": before == after,
		"differs": signedDiffers(&orig, &mut)})
}

func flipBit(b []byte, i int) []byte {
	c := append([]byte{}, b...)
	c[i/8] ^= 1 << (i % 8)
	return c
}

const b58 = "123456789ABCDEFGHJKLMNPQRSTUVWXYZabcdefghijkmnopqrstuvwxyz"

// sealMain: drive seal <trace.ndjson> <seed> <tier>
func sealMain(args []string) {
	if len(args) != 3 {
		fatal("usage: drive seal <trace.ndjson> <seed> <quick|thorough>")
	}
	sd, _ := strconv.Atoi(args[1])
	rng := rand.New(rand.NewSource(int64(sd)))
	thorough := args[2] == "thorough"
	f, err := os.Create(args[0])
	if err != nil {
		fatal("%v", err)
	}
	bw := bufio.NewWriterSize(f, 1<<20)
	enc := json.NewEncoder(bw)
	w := newSealWorld(enc)
	total := 0
	// every mutation is offered twice: to a node that does not know the sealing node, and to a node that trusts it
	// (trust exempts a sealer's vertices from the accounting test, never from authentication)
	for pass, cs := range []bool{false, true, false, true} {
		if pass == 2 {
			if err := w.ab.AddTrustedNode(w.s.Address()); err != nil {
				fatal("trust: %v", err)
			}
		}
		v := w.honest(cs, fmt.Sprint(cs, pass))
		other := w.honest(cs, "other"+fmt.Sprint(cs, pass))
		each := func(abs, kind string, f func(m *accountant.Vertex)) {
			m := v
			m.Signature = append([]byte{}, v.Signature...)
			m.Transaction.Data = append([]byte{}, v.Transaction.Data...)
			m.Transaction.IssuerSignature = append([]byte{}, v.Transaction.IssuerSignature...)
			m.Transaction.ReceiverSignature = append([]byte{}, v.Transaction.ReceiverSignature...)
			f(&m)
			w.offer(abs, kind, cs, v, m)
		}
		// single-bit flips of every fixed-size field
		for b := 0; b < 256; b++ {
			b := b
			each("vhash", "bit", func(m *accountant.Vertex) { copy(m.Hash[:], flipBit(v.Hash[:], b)) })
			each("left", "bit", func(m *accountant.Vertex) { copy(m.LeftParentHash[:], flipBit(v.LeftParentHash[:], b)) })
			each("right", "bit", func(m *accountant.Vertex) { copy(m.RightParentHash[:], flipBit(v.RightParentHash[:], b)) })
			each("trxhash", "bit", func(m *accountant.Vertex) { copy(m.Transaction.Hash[:], flipBit(v.Transaction.Hash[:], b)) })
		}
		for b := 0; b < 512; b++ {
			b := b
			each("vsig.corrupt", "bit", func(m *accountant.Vertex) { m.Signature = flipBit(v.Signature, b) })
			each("isig.corrupt", "bit", func(m *accountant.Vertex) { m.Transaction.IssuerSignature = flipBit(v.Transaction.IssuerSignature, b) })
			if cs {
				each("rsig.replace", "bit", func(m *accountant.Vertex) {
					m.Transaction.ReceiverSignature = flipBit(v.Transaction.ReceiverSignature, b)
				})
			}
		}
		for b := 0; b < 64; b++ {
			b := uint(b)
			each("weight", "bit", func(m *accountant.Vertex) { m.Weight ^= 1 << b })
			each("cur", "bit", func(m *accountant.Vertex) { m.Transaction.Spice.Currency ^= 1 << b })
			each("sup", "bit", func(m *accountant.Vertex) { m.Transaction.Spice.SupplementaryCurrency ^= 1 << b })
			if b < 62 {
				each("vtime", "bit", func(m *accountant.Vertex) { m.CreatedAt = time.Unix(0, v.CreatedAt.UnixNano()^(1<<b)) })
				each("time", "bit", func(m *accountant.Vertex) {
					m.Transaction.CreatedAt = time.Unix(0, v.Transaction.CreatedAt.UnixNano()^(1<<b))
				})
			}
		}
		// variable-length fields: every bit of subject and data, truncation, extension, emptying
		for b := 0; b < len(v.Transaction.Subject)*8; b++ {
			b := b
			each("subject.flip", "bit", func(m *accountant.Vertex) { m.Transaction.Subject = string(flipBit([]byte(v.Transaction.Subject), b)) })
		}
		for b := 0; b < len(v.Transaction.Data)*8; b++ {
			b := b
			each("data.flip", "bit", func(m *accountant.Vertex) { m.Transaction.Data = flipBit(v.Transaction.Data, b) })
		}
		each("subject.extend", "extend", func(m *accountant.Vertex) { m.Transaction.Subject += "x" })
		each("subject.extend", "truncate", func(m *accountant.Vertex) {
			m.Transaction.Subject = m.Transaction.Subject[:len(m.Transaction.Subject)-1]
		})
		each("data.extend", "extend", func(m *accountant.Vertex) { m.Transaction.Data = append(m.Transaction.Data, 'x') })
		each("data.truncate", "truncate", func(m *accountant.Vertex) { m.Transaction.Data = m.Transaction.Data[:len(m.Transaction.Data)-1] })
		each("data.truncate", "empty", func(m *accountant.Vertex) { m.Transaction.Data = nil })
		each("vsig.corrupt", "truncate", func(m *accountant.Vertex) { m.Signature = m.Signature[:63] })
		each("vsig.corrupt", "extend", func(m *accountant.Vertex) { m.Signature = append(m.Signature, 0) })
		each("vsig.corrupt", "empty", func(m *accountant.Vertex) { m.Signature = nil })
		each("isig.corrupt", "truncate", func(m *accountant.Vertex) { m.Transaction.IssuerSignature = m.Transaction.IssuerSignature[:63] })
		each("isig.corrupt", "empty", func(m *accountant.Vertex) { m.Transaction.IssuerSignature = nil })
		// addresses: every position substituted (self-checking), truncated, extended, replaced by another wallet's
		subst := func(a string, pos int, c byte) string { x := []byte(a); x[pos] = c; return string(x) }
		for _, fld := range []string{"sealer", "issuer", "receiver"} {
			get := map[string]string{"sealer": v.SignerPublicAddress, "issuer": v.Transaction.IssuerAddress, "receiver": v.Transaction.ReceiverAddress}[fld]
			set := func(m *accountant.Vertex, a string) {
				switch fld {
				case "sealer":
					m.SignerPublicAddress = a
				case "issuer":
					m.Transaction.IssuerAddress = a
				default:
					m.Transaction.ReceiverAddress = a
				}
			}
			for pos := 0; pos < len(get); pos++ {
				alts := 2
				if thorough {
					alts = 8
				}
				for k := 0; k < alts; k++ {
					c := b58[rng.Intn(len(b58))]
					if c == get[pos] {
						continue
					}
					pos, c := pos, c
					each(fld+".corrupt", "char", func(m *accountant.Vertex) { set(m, subst(get, pos, c)) })
				}
			}
			each(fld+".corrupt", "truncate", func(m *accountant.Vertex) { set(m, get[:len(get)-1]) })
			each(fld+".corrupt", "extend", func(m *accountant.Vertex) { set(m, get+"1") })
			// base58 '1' is a zero byte: an address padded on the left must not resolve to the same key
			each(fld+".corrupt", "extend-left", func(m *accountant.Vertex) { set(m, "1"+get) })
			each(fld+".corrupt", "extend-left", func(m *accountant.Vertex) { set(m, "11"+get) })
			each(fld+".corrupt", "extend-left", func(m *accountant.Vertex) { set(m, "2"+get) })
			each(fld+".corrupt", "insert", func(m *accountant.Vertex) { set(m, get[:len(get)/2]+"1"+get[len(get)/2:]) })
			each(fld+".corrupt", "truncate-left", func(m *accountant.Vertex) { set(m, get[1:]) })
			each(fld+".replace", "other", func(m *accountant.Vertex) { set(m, w.m.Address()) })
		}
		// signatures by another wallet over the same digest
		each("vsig.replace", "other", func(m *accountant.Vertex) {
			_, m.Signature = w.m.Sign(v.Hash[:])
			m.Signature = signDigest(w.m, v.Hash)
		})
		each("isig.replace", "other", func(m *accountant.Vertex) { m.Transaction.IssuerSignature = signDigest(w.m, v.Transaction.Hash) })
		each("rsig.replace", "other", func(m *accountant.Vertex) { m.Transaction.ReceiverSignature = signDigest(w.m, v.Transaction.Hash) })
		// swapping fields between two valid vertices
		each("vhash", "swap", func(m *accountant.Vertex) { m.Hash = other.Hash })
		each("vsig.corrupt", "swap", func(m *accountant.Vertex) { m.Signature = other.Signature })
		each("trxhash", "swap", func(m *accountant.Vertex) { m.Transaction.Hash = other.Transaction.Hash })
		each("isig.corrupt", "swap", func(m *accountant.Vertex) { m.Transaction.IssuerSignature = other.Transaction.IssuerSignature })
		each("subject.flip", "swap", func(m *accountant.Vertex) { m.Transaction.Subject = other.Transaction.Subject })
		each("data.flip", "swap", func(m *accountant.Vertex) { m.Transaction.Data = other.Transaction.Data })
		each("vtime", "swap", func(m *accountant.Vertex) { m.CreatedAt = other.CreatedAt })
		each("time", "swap", func(m *accountant.Vertex) { m.Transaction.CreatedAt = other.Transaction.CreatedAt })
		each("trxhash", "swap-trx", func(m *accountant.Vertex) { m.Transaction = other.Transaction })
		// moving bytes across boundaries that are next to fixed-width material
		each("issuer.corrupt", "boundary", func(m *accountant.Vertex) {
			d := m.Transaction.Data
			m.Transaction.IssuerAddress = string(d[len(d)-1:]) + m.Transaction.IssuerAddress
			m.Transaction.Data = d[:len(d)-1]
		})
		each("receiver.corrupt", "boundary", func(m *accountant.Vertex) {
			a := m.Transaction.IssuerAddress
			m.Transaction.ReceiverAddress = a[len(a)-1:] + m.Transaction.ReceiverAddress
			m.Transaction.IssuerAddress = a[:len(a)-1]
		})
		// seeded multi-bit flips over the whole signed material
		multi := 400
		if thorough {
			multi = 10000
		}
		for k := 0; k < multi; k++ {
			each("vsig.corrupt", "multibit", func(m *accountant.Vertex) {
				for j := 0; j < 2+rng.Intn(6); j++ {
					switch rng.Intn(6) {
					case 0:
						copy(m.Hash[:], flipBit(m.Hash[:], rng.Intn(256)))
					case 1:
						m.Signature = flipBit(m.Signature, rng.Intn(512))
					case 2:
						copy(m.Transaction.Hash[:], flipBit(m.Transaction.Hash[:], rng.Intn(256)))
					case 3:
						m.Transaction.IssuerSignature = flipBit(m.Transaction.IssuerSignature, rng.Intn(512))
					case 4:
						m.Weight ^= 1 << uint(rng.Intn(64))
					case 5:
						m.Transaction.Spice.Currency ^= 1 << uint(rng.Intn(64))
					}
				}
			})
		}
		total += w.n
	}
	// a vertex the node has verified but not admitted (its parent is unknown: it is parked), then copies that keep its
	// hash and seal but are re-pointed at a known parent with other weight / amount / receiver: whatever the node
	// remembers about the parked vertex, the copies are refused
	for _, cs := range []bool{false, true} {
		w3 := newSealWorld(enc)
		parent := w3.honest(false, "unknown-parent")
		v := w3.honest(cs, "parked")
		v2, _ := accountant.NewVertex(v.Transaction, parent.Hash, parent.Hash, parent.Weight+1, w3.s)
		if err := w3.ab.AddLeaf(context.Background(), &v2); err == nil {
			fatal("the vertex with an unknown parent was admitted")
		}
		repoint := func(m *accountant.Vertex) { m.LeftParentHash, m.RightParentHash = w3.tip.Hash, w3.tip.Hash }
		muts := []struct {
			abs string
			f   func(m *accountant.Vertex)
		}{
			{"left", repoint},
			{"weight", func(m *accountant.Vertex) { repoint(m); m.Weight = w3.tip.Weight + 1 }},
			{"cur", func(m *accountant.Vertex) { repoint(m); m.Transaction.Spice.Currency += 1000 }},
			{"receiver.replace", func(m *accountant.Vertex) { repoint(m); m.Transaction.ReceiverAddress = w3.m.Address() }},
			{"vtime", func(m *accountant.Vertex) { repoint(m); m.CreatedAt = m.CreatedAt.Add(time.Second) }},
		}
		for round := 0; round < 2; round++ {
			for _, mu := range muts {
				m := v2
				mu.f(&m)
				w3.offer(mu.abs, "parked-twin", cs, v2, m)
			}
		}
		total += w3.n
		w3.ab.VerifClose()
	}
	// a countersigned transaction that a wallet addressed to itself: the receiver signature is still a signature that
	// has to verify
	{
		w4 := newSealWorld(enc)
		t, err := transaction.New("to myself", spice.New(1, 0), []byte("note"), w4.i.Address(), w4.i)
		if err != nil {
			fatal("%v", err)
		}
		if _, err := t.Sign(w4.i, wallet.NewVerifier()); err != nil {
			fatal("countersign: %v", err)
		}
		v, _ := accountant.NewVertex(t, w4.tip.Hash, w4.tip.Hash, w4.tip.Weight+1, w4.s)
		off := func(kind string, f func(m *accountant.Vertex)) {
			m := v
			m.Transaction.ReceiverSignature = append([]byte{}, v.Transaction.ReceiverSignature...)
			f(&m)
			w4.offer("rsig.replace", kind, true, v, m)
		}
		for b := 0; b < 512; b += 3 {
			b := b
			off("bit-self", func(m *accountant.Vertex) {
				m.Transaction.ReceiverSignature = flipBit(v.Transaction.ReceiverSignature, b)
			})
		}
		off("other-self", func(m *accountant.Vertex) { m.Transaction.ReceiverSignature = signDigest(w4.m, v.Transaction.Hash) })
		off("short-self", func(m *accountant.Vertex) { m.Transaction.ReceiverSignature = []byte{1} })
		total += w4.n
		w4.ab.VerifClose()
	}
	// the two design-level ways around the signatures, each on a fresh ledger because the copy may be admitted
	for _, cs := range []bool{false, true} {
		for _, abs := range []string{"boundary.subject>data", "boundary.data>subject", "rsig.strip"} {
			if abs == "rsig.strip" && !cs {
				continue
			}
			w2 := newSealWorld(enc)
			v := w2.honest(cs, "kf")
			m := v
			switch abs {
			case "boundary.subject>data":
				s := v.Transaction.Subject
				m.Transaction.Subject = s[:len(s)-1]
				m.Transaction.Data = append([]byte(s[len(s)-1:]), v.Transaction.Data...)
			case "boundary.data>subject":
				m.Transaction.Subject = v.Transaction.Subject + string(v.Transaction.Data[:1])
				m.Transaction.Data = append([]byte{}, v.Transaction.Data[1:]...)
			case "rsig.strip":
				m.Transaction.ReceiverSignature = nil
			}
			w2.offer(abs, "design", cs, v, m)
			w2.ab.VerifClose()
			total++
		}
	}
	bw.Flush()
	f.Close()
	fmt.Printf("{\"offers\":%d}\n", w.n)
}

func signDigest(w *wallet.Wallet, h [32]byte) []byte {
	// the wallet signs sha256(message); to sign a given digest the message is not needed here: an invalid
	// signature by another key is all that is wanted
	_, s := w.Sign(h[:])
	return s
}
