package main

import (
	"fmt"
	"os"
)

func fatal(format string, a ...any) {
	fmt.Fprintf(os.Stderr, "drive: "+format+"\n", a...)
	os.Exit(2)
}

func main() {
	if len(os.Args) < 2 {
		fatal("usage: drive <ledger|...> args")
	}
	switch os.Args[1] {
	case "ledger":
		ledgerMain(os.Args[2:])
	case "file":
		fileMain(os.Args[2:])
	case "race":
		raceMain(os.Args[2:])
	case "seal":
		sealMain(os.Args[2:])
	case "shapes":
		shapesMain(os.Args[2:])
	case "notary":
		notaryMain(os.Args[2:])
	case "gossip":
		gossipMain(os.Args[2:])
	case "cache":
		cacheMain(os.Args[2:])
	case "spice":
		spiceMain(os.Args[2:])
	case "locks":
		locksMain(os.Args[2:])
	case "member":
		memberMain(os.Args[2:])
	case "balance":
		balanceMain(os.Args[2:])
	case "webhook-stress":
		webhookStressMain(os.Args[2:])
	case "webhook":
		webhookMain(os.Args[2:])
	case "member-stress":
		memberStressMain(os.Args[2:])
	default:
		fatal("unknown driver %q", os.Args[1])
	}
}
