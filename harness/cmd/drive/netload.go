package main

// Load over the real transport (C14): the source node's REAL gossip server (handler LoadDag, the proto mapping)
// listens on a loopback port, the loading node's REAL gossiper runs updateDag against it (stream receive loop, the
// mapping back, AccountingBook.LoadDag in its goroutine). Both gossipers get their book through a thin proxy
// that records - and for corrupted streams edits - the vertex sequence; everything else is the repository's code.

import (
	"context"
	"errors"
	"net"
	"sync"
	"time"

	"github.com/bartossh/Computantis/src/accountant"
	"github.com/bartossh/Computantis/src/gossip"
	"github.com/bartossh/Computantis/src/protobufcompiled"
	"github.com/bartossh/Computantis/src/wallet"
	"google.golang.org/grpc"
	"google.golang.org/grpc/credentials/insecure"
)

// srcProxy edits what the source book streams.
type srcProxy struct {
	*accountant.AccountingBook
	edit func([]*accountant.Vertex) []*accountant.Vertex
	sent []*accountant.Vertex
}

func (p *srcProxy) StreamDAG(ctx context.Context) <-chan *accountant.Vertex {
	in := p.AccountingBook.StreamDAG(ctx)
	out := make(chan *accountant.Vertex, 100)
	go func() {
		defer close(out)
		var all []*accountant.Vertex
		for v := range in {
			if v == nil {
				continue
			}
			c := *v
			all = append(all, &c)
		}
		if p.edit != nil {
			all = p.edit(all)
		}
		p.sent = all
		for _, v := range all {
			select {
			case out <- v:
			case <-ctx.Done():
				return
			}
		}
	}()
	return out
}

// dstProxy records what reaches the loading book and how LoadDag ended.
type dstProxy struct {
	*accountant.AccountingBook
	mu    sync.Mutex
	got   [][32]byte
	cause error
	pv    any
	done  chan struct{}
}

func (p *dstProxy) LoadDag(cancelF context.CancelCauseFunc, cVrx <-chan *accountant.Vertex) {
	defer close(p.done)
	defer func() { p.pv = recover() }()
	mid := make(chan *accountant.Vertex, 1000)
	go func() {
		defer close(mid)
		for v := range cVrx {
			if v != nil {
				p.mu.Lock()
				p.got = append(p.got, v.Hash)
				p.mu.Unlock()
			}
			mid <- v
		}
	}()
	p.AccountingBook.LoadDag(func(cause error) {
		p.mu.Lock()
		if p.cause == nil {
			p.cause = cause
		}
		p.mu.Unlock()
		cancelF(cause)
	}, mid)
}

func (w *world) opNetLoad(op ledgerOp) {
	src, dst := w.nodes[op.N], w.nodes[op.M]
	if src == nil || dst == nil {
		return
	}
	sp := &srcProxy{AccountingBook: src.ab}
	switch op.Kind {
	case "dupvertex":
		sp.edit = func(s []*accountant.Vertex) []*accountant.Vertex {
			if op.Cut < len(s) {
				c := *s[op.Cut]
				s = append(s, &c)
			}
			return s
		}
	case "dropvertex":
		sp.edit = func(s []*accountant.Vertex) []*accountant.Vertex {
			if op.Cut < len(s) {
				s = append(s[:op.Cut], s[op.Cut+1:]...)
			}
			return s
		}
	case "extra":
		sp.edit = func(s []*accountant.Vertex) []*accountant.Vertex {
			if id, ok := w.realID(op.V); ok {
				c := w.vtx[id-1]
				s = append(s, &c)
			}
			return s
		}
	case "only":
		sp.edit = func(s []*accountant.Vertex) []*accountant.Vertex {
			if id, ok := w.realID(op.V); ok {
				c := w.vtx[id-1]
				return []*accountant.Vertex{&c}
			}
			return s
		}
	}
	dp := &dstProxy{AccountingBook: dst.ab, done: make(chan struct{})}
	sw, dw := src.w, dst.w
	sg := gossip.VerifNew(sp, wallet.NewVerifier(), sw, nopLogger{}, nil, nil, nil, "src", time.Second)
	dg := gossip.VerifNew(dp, wallet.NewVerifier(), dw, nopLogger{}, nil, nil, nil, "dst", time.Second)
	dg.SetClientOptions(grpc.WithTransportCredentials(insecure.NewCredentials()))

	lis, err := net.Listen("tcp", "127.0.0.1:0")
	if err != nil {
		fatal("listen: %v", err)
	}
	srv := grpc.NewServer()
	protobufcompiled.RegisterGossipAPIServer(srv, sg.Server())
	go func() { _ = srv.Serve(lis) }()
	defer srv.Stop()

	wasLoaded := dst.ab.DagLoaded()
	var uerr error
	ret := make(chan struct{})
	go func() {
		defer close(ret)
		ctx, cancel := context.WithTimeout(context.Background(), 6*opTimeout)
		defer cancel()
		uerr = dg.UpdateDag(ctx, lis.Addr().String())
	}()
	select {
	case <-ret:
	case <-wedgeTimer(7):
		w.emit(event{"a": "Wedged", "n": op.M, "where": "updatedag"})
		return
	}
	// updateDag does not wait for the book's LoadDag goroutine: wait for it here
	select {
	case <-dp.done:
	case <-wedgeTimer(1):
		w.emit(event{"a": "Wedged", "n": op.M, "where": "load"})
		return
	}
	order := []int{}
	dp.mu.Lock()
	for _, h := range dp.got {
		order = append(order, w.vid[h])
	}
	cause := dp.cause
	dp.mu.Unlock()
	res := "ok"
	if dp.pv != nil {
		res = "panic"
	} else if cause != nil {
		res = "abort"
		if errors.Is(cause, accountant.ErrDagIsLoaded) {
			res = "alreadyloaded"
		}
	} else if wasLoaded {
		res = "alreadyloaded"
	}
	sent := []int{}
	for _, v := range sp.sent {
		sent = append(sent, w.vid[v.Hash])
	}
	srcSt, _ := w.project(src)
	e := event{"a": "Load", "m": op.M, "n": op.N, "order": order, "kind": op.Kind, "res": res, "src": srcSt,
		"via": "grpc", "sent": sent, "uerr": uerr != nil}
	w.emitSt(e, dst)
}
