package main

// Cache driver (C17): sequential call sequences, gate-controlled two-call interleavings and
// free-running concurrent calls on a real cache.Hippocampus; the recorded replies and states are
// judged by TLC from AwaitCacheTrace.tla.

import (
	"bufio"
	"encoding/json"
	"errors"
	"fmt"
	"math/rand"
	"os"
	"runtime"
	"strconv"
	"sync"
	"sync/atomic"
	"time"

	"github.com/bartossh/Computantis/src/cache"
	"github.com/bartossh/Computantis/src/spice"
	"github.com/bartossh/Computantis/src/transaction"
	"github.com/bartossh/Computantis/src/wallet"
)

type cacheWorld struct {
	h      *cache.Hippocampus
	names  []string // hash names
	addrs  []string // address names
	wl     map[string]*wallet.Wallet
	trx    map[string]*transaction.Transaction
	hname  map[[32]byte]string
	iss    map[string]string
	rcv    map[string]string
	enc    *json.Encoder
	events int
}

var sharedCache *cache.Hippocampus

func newCacheWorld(enc *json.Encoder, addrs []string, pairs [][2]string) *cacheWorld {
	// one real cache for the whole run: every world uses fresh wallets and transactions, so its keys are its own
	if sharedCache == nil {
		h, err := cache.New(1<<12, 0) // no hard size limit: nothing is evicted during a run
		if err != nil {
			fatal("cache: %v", err)
		}
		sharedCache = h
	}
	h := sharedCache
	w := &cacheWorld{h: h, addrs: addrs, wl: map[string]*wallet.Wallet{}, trx: map[string]*transaction.Transaction{},
		hname: map[[32]byte]string{}, iss: map[string]string{}, rcv: map[string]string{}, enc: enc}
	for _, a := range addrs {
		x, _ := wallet.New()
		w.wl[a] = &x
	}
	for i, p := range pairs {
		name := "h" + strconv.Itoa(i+1)
		t, err := transaction.New("awaited "+name, spice.New(1, 0), []byte("data"), w.wl[p[1]].Address(), w.wl[p[0]])
		if err != nil {
			fatal("trx: %v", err)
		}
		w.trx[name] = &t
		w.hname[t.Hash] = name
		w.names = append(w.names, name)
		w.iss[name], w.rcv[name] = p[0], p[1]
		time.Sleep(time.Microsecond)
	}
	w.emit(map[string]any{"a": "Reset", "hashes": w.names, "addrs": addrs, "iss": w.iss, "rcv": w.rcv})
	return w
}

func (w *cacheWorld) emit(e map[string]any) {
	w.events++
	_ = w.enc.Encode(e)
}

func (w *cacheWorld) state() (entry []string, lists map[string]any) {
	var hs [][32]byte
	for _, n := range w.names {
		hs = append(hs, w.trx[n].Hash)
	}
	var as []string
	for _, a := range w.addrs {
		as = append(as, w.wl[a].Address())
	}
	present, ls := w.h.VerifPeek(hs, as)
	entry = []string{}
	for _, n := range w.names {
		if present[w.trx[n].Hash] {
			entry = append(entry, n)
		}
	}
	lists = map[string]any{}
	for _, a := range w.addrs {
		l := ls[w.wl[a].Address()]
		if l == nil {
			lists[a] = []string{"absent"}
			continue
		}
		out := []string{}
		for _, x := range l {
			n, ok := w.hname[x]
			if !ok {
				n = fmt.Sprintf("unknown:%x", x[:4])
			}
			out = append(out, n)
		}
		lists[a] = out
	}
	return
}

func cacheRes(err error) string {
	switch {
	case err == nil:
		return "ok"
	case errors.Is(err, cache.ErrTrxAlreadyExists):
		return "exists"
	case errors.Is(err, cache.ErrTransactionNotFound):
		return "notfound"
	case errors.Is(err, cache.ErrUnauthorized):
		return "unauthorized"
	}
	return "error:" + err.Error()
}

type cacheCall struct {
	op, h, a string
}

func (w *cacheWorld) do(c cacheCall) (string, []string) {
	out := []string{}
	switch c.op {
	case "save":
		return cacheRes(w.h.SaveAwaitedTransaction(w.trx[c.h])), out
	case "remove":
		_, err := w.h.RemoveAwaitedTransaction(w.trx[c.h].Hash, w.wl[c.a].Address())
		return cacheRes(err), out
	default:
		trxs, err := w.h.ReadTransactions(w.wl[c.a].Address())
		for _, t := range trxs {
			n, ok := w.hname[t.Hash]
			if !ok || !sameTrx(&t, w.trx[n]) {
				n = "corrupt"
			}
			out = append(out, n)
		}
		return cacheRes(err), out
	}
}

func (w *cacheWorld) call(c cacheCall) {
	res, out := w.do(c)
	entry, lists := w.state()
	w.emit(map[string]any{"a": "Call", "op": c.op, "h": c.h, "addr": c.a, "res": res, "out": out, "entry": entry, "lists": lists})
}

func (w *cacheWorld) quiesce(expect []string, note string) {
	entry, lists := w.state()
	if expect == nil {
		expect = []string{}
	}
	w.emit(map[string]any{"a": "Quiesce", "entry": entry, "lists": lists, "expect": expect, "note": note})
}

func (w *cacheWorld) randomCall(rng *rand.Rand) cacheCall {
	h := w.names[rng.Intn(len(w.names))]
	a := w.addrs[rng.Intn(len(w.addrs))]
	switch rng.Intn(5) {
	case 0, 1:
		return cacheCall{"save", h, "none"}
	case 2:
		if rng.Intn(3) > 0 {
			a = w.rcv[h]
		}
		return cacheCall{"remove", h, a}
	case 3:
		return cacheCall{"remove", h, w.rcv[h]}
	default:
		return cacheCall{"read", "none", a}
	}
}

var cachePairs = [][2]string{{"A", "B"}, {"B", "A"}, {"A", "A"}, {"A", "C"}, {"C", "B"}, {"B", "B"}}
var cacheAddrs = []string{"A", "B", "C"}

// gated runs call c1 until it is parked between reading and writing a list, runs c2 meanwhile (it
// completes only if nothing serialises the two), then releases c1.
func (w *cacheWorld) gated(pre []cacheCall, c1, c2 cacheCall, expect []string) {
	for _, c := range pre {
		w.do(c)
	}
	atGate, release := make(chan struct{}), make(chan struct{})
	var once sync.Once
	var owner sync.Once
	cache.VerifGate = func(string) {
		first := false
		owner.Do(func() { first = true })
		if !first {
			return
		}
		once.Do(func() { close(atGate) })
		<-release
	}
	done1, done2 := make(chan struct{}), make(chan struct{})
	go func() { defer close(done1); w.do(c1) }()
	parked := false
	select {
	case <-atGate:
		parked = true
	case <-done1:
	case <-time.After(5 * time.Second):
	}
	go func() { defer close(done2); w.do(c2) }()
	overlapped := false
	select {
	case <-done2:
		overlapped = parked
	case <-time.After(150 * time.Millisecond):
	}
	close(release)
	<-done1
	<-done2
	cache.VerifGate = nil
	w.quiesce(expect, fmt.Sprintf("gated %v || %v parked=%v overlapped=%v", c1, c2, parked, overlapped))
}

// gatedSeq parks c1 at every gate it passes; at the k-th park the calls of stages[k] are run one after the other
// (they complete meanwhile only if nothing serialises them with c1), then c1 is released to its next gate.
func (w *cacheWorld) gatedSeq(pre []cacheCall, c1 cacheCall, stages [][]cacheCall, expect []string) {
	for _, c := range pre {
		w.do(c)
	}
	parkedAt := make(chan chan struct{}, 8)
	var ownerID atomic.Int64
	cache.VerifGate = func(string) {
		if ownerID.Load() != goid() {
			return
		}
		rel := make(chan struct{})
		parkedAt <- rel
		<-rel
	}
	done1 := make(chan struct{})
	go func() {
		defer close(done1)
		ownerID.Store(goid())
		w.do(c1)
	}()
	var waits []chan struct{}
	parks, overl := 0, 0
	for k := 0; ; k++ {
		var rel chan struct{}
		select {
		case rel = <-parkedAt:
			parks++
		case <-done1:
		case <-time.After(5 * time.Second):
		}
		if rel == nil {
			break
		}
		if k < len(stages) {
			d := make(chan struct{})
			var prev chan struct{}
			if len(waits) > 0 {
				prev = waits[len(waits)-1]
			}
			waits = append(waits, d)
			st := stages[k]
			go func() {
				defer close(d)
				if prev != nil {
					<-prev // the stages keep their order also when c1 serialises everything behind itself
				}
				for _, c := range st {
					w.do(c)
				}
			}()
			select {
			case <-d:
				overl++
			case <-time.After(150 * time.Millisecond):
			}
		}
		close(rel)
	}
	<-done1
	for _, d := range waits {
		<-d
	}
	cache.VerifGate = nil
	// stages that never got their turn (c1 passed fewer gates) are run now, in order
	for k := parks; k < len(stages); k++ {
		for _, c := range stages[k] {
			w.do(c)
		}
	}
	w.quiesce(expect, fmt.Sprintf("gated %v || %v parks=%d overlapped=%d", c1, stages, parks, overl))
}

// goid returns the id of the calling goroutine (from its stack header).
func goid() int64 {
	var buf [64]byte
	n := runtime.Stack(buf[:], false)
	var id int64
	fmt.Sscanf(string(buf[:n]), "goroutine %d ", &id)
	return id
}

// cacheMain: drive cache <trace.ndjson> <seed> <tier>
func cacheMain(args []string) {
	if len(args) != 3 {
		fatal("usage: drive cache <trace.ndjson> <seed> <quick|thorough>")
	}
	sd, _ := strconv.Atoi(args[1])
	rng := rand.New(rand.NewSource(int64(sd)))
	thorough := args[2] == "thorough"
	f, err := os.Create(args[0])
	if err != nil {
		fatal("%v", err)
	}
	bw := bufio.NewWriterSize(f, 1<<20)
	enc := json.NewEncoder(bw)
	total := 0

	// (i) sequential sequences
	nseq, length := 60, 40
	if thorough {
		nseq, length = 600, 60
	}
	for i := 0; i < nseq; i++ {
		w := newCacheWorld(enc, cacheAddrs, cachePairs)
		for j := 0; j < length; j++ {
			w.call(w.randomCall(rng))
		}
		total += w.events
	}
	// (ii) every two-call interleaving at the list gate
	type gcase struct {
		pre    []cacheCall
		c1, c2 cacheCall
		expect []string
	}
	sv := func(h string) cacheCall { return cacheCall{"save", h, "none"} }
	rm := func(h, a string) cacheCall { return cacheCall{"remove", h, a} }
	rd := func(a string) cacheCall { return cacheCall{"read", "none", a} }
	cases := []gcase{
		{nil, sv("h1"), sv("h2"), []string{"h1", "h2"}},
		{nil, sv("h1"), sv("h4"), []string{"h1", "h4"}},
		{nil, sv("h3"), sv("h1"), []string{"h1", "h3"}},
		{[]cacheCall{sv("h2")}, sv("h1"), rm("h2", "A"), []string{"h1"}},
		{[]cacheCall{sv("h1"), sv("h2")}, rm("h1", "B"), rm("h2", "A"), []string{}},
		{[]cacheCall{sv("h1")}, rm("h1", "B"), sv("h2"), []string{"h2"}},
		{[]cacheCall{sv("h1")}, rm("h1", "B"), sv("h4"), []string{"h4"}},
		{[]cacheCall{sv("h1"), sv("h4")}, rm("h1", "B"), rm("h4", "C"), []string{}},
		{[]cacheCall{sv("h1")}, sv("h2"), rd("A"), []string{"h1", "h2"}},
		{[]cacheCall{sv("h1"), sv("h5")}, rm("h5", "B"), sv("h6"), []string{"h1", "h6"}},
	}
	for _, gc := range cases {
		w := newCacheWorld(enc, cacheAddrs, cachePairs)
		w.gated(gc.pre, gc.c1, gc.c2, gc.expect)
		total += w.events
	}
	// (ii-b) a read parked between its list read, its entry look-ups and its clean-up, with other calls in between
	type scase struct {
		pre    []cacheCall
		c1     cacheCall
		stages [][]cacheCall
		expect []string
	}
	scases := []scase{
		{[]cacheCall{sv("h1")}, rd("B"), [][]cacheCall{{rm("h1", "B")}, {sv("h1")}}, []string{"h1"}},
		{[]cacheCall{sv("h1")}, rd("A"), [][]cacheCall{{rm("h1", "B")}, {sv("h1")}}, []string{"h1"}},
		{[]cacheCall{sv("h1"), sv("h2")}, rd("A"), [][]cacheCall{{rm("h2", "A"), sv("h2")}, {rm("h1", "B")}}, []string{"h2"}},
		{[]cacheCall{sv("h1")}, rd("B"), [][]cacheCall{{rm("h1", "B"), sv("h1")}, {sv("h5")}}, []string{"h1", "h5"}},
		{[]cacheCall{sv("h3")}, rd("A"), [][]cacheCall{{rm("h3", "A")}, {sv("h3"), sv("h4")}}, []string{"h3", "h4"}},
		{[]cacheCall{sv("h1")}, rd("B"), [][]cacheCall{{sv("h5")}, {rm("h5", "B"), rm("h1", "B")}}, []string{}},
	}
	for _, sc := range scases {
		w := newCacheWorld(enc, cacheAddrs, cachePairs)
		w.gatedSeq(sc.pre, sc.c1, sc.stages, sc.expect)
		total += w.events
	}
	// (iii) free-running: every goroutine owns its hashes (saves them, removes some), addresses are shared
	rounds, per := 6, 40
	if thorough {
		rounds, per = 40, 120
	}
	for r := 0; r < rounds; r++ {
		var pairs [][2]string
		g := 8
		for i := 0; i < g*per; i++ {
			pairs = append(pairs, [2]string{cacheAddrs[rng.Intn(2)], cacheAddrs[rng.Intn(3)]})
		}
		w := newCacheWorld(enc, cacheAddrs, pairs)
		var wg sync.WaitGroup
		var mu sync.Mutex
		expect := []string{}
		for gi := 0; gi < g; gi++ {
			wg.Add(1)
			lrng := rand.New(rand.NewSource(int64(sd*1000 + r*10 + gi)))
			go func(gi int) {
				defer wg.Done()
				for k := 0; k < per; k++ {
					name := w.names[gi*per+k]
					if res, _ := w.do(cacheCall{"save", name, "none"}); res != "ok" {
						continue
					}
					kept := true
					if lrng.Intn(2) == 0 {
						if res, _ := w.do(cacheCall{"remove", name, w.rcv[name]}); res == "ok" {
							kept = false
						}
					}
					if lrng.Intn(4) == 0 {
						w.do(cacheCall{"read", "none", cacheAddrs[lrng.Intn(3)]})
					}
					if kept {
						mu.Lock()
						expect = append(expect, name)
						mu.Unlock()
					}
				}
			}(gi)
		}
		wg.Wait()
		w.quiesce(expect, "free-running")
		total += w.events
	}
	// (iv) the same transactions saved by every goroutine at once (and removed by their receivers at once):
	// exactly one save and one removal of each takes effect, nothing is listed twice
	for r := 0; r < rounds; r++ {
		var pairs [][2]string
		nh := 60
		for i := 0; i < nh; i++ {
			pairs = append(pairs, [2]string{cacheAddrs[rng.Intn(3)], cacheAddrs[rng.Intn(3)]})
		}
		w := newCacheWorld(enc, cacheAddrs, pairs)
		var wg sync.WaitGroup
		oks := make([]int32, nh)
		for gi := 0; gi < 8; gi++ {
			wg.Add(1)
			go func() {
				defer wg.Done()
				for k := 0; k < nh; k++ {
					if res, _ := w.do(cacheCall{"save", w.names[k], "none"}); res == "ok" {
						atomic.AddInt32(&oks[k], 1)
					}
				}
			}()
		}
		wg.Wait()
		expect := []string{}
		for k := 0; k < nh; k++ {
			if oks[k] != 1 {
				// more than one accepted save of one transaction: make the state unexplainable
				expect = append(expect, fmt.Sprintf("%s-saved-%d-times", w.names[k], oks[k]))
			} else {
				expect = append(expect, w.names[k])
			}
		}
		w.quiesce(expect, "same transactions saved concurrently")
		total += w.events
	}
	bw.Flush()
	f.Close()
	fmt.Printf("{\"events\":%d}\n", total)
}
