package main

// Gossip driver (C11, C12): a virtual network of REAL gossipers (hook VerifNew), each with a real
// AccountingBook, Hippocampus, Flashback and Juggler. Peer tables hold client stubs owned by the
// harness: a stub call parks the calling goroutine and registers an in-flight message; the harness
// delivers messages by invoking the target's real handler in the order a behaviour dictates.
// Behaviours come from TLC (GossipNet.tla); every delivery is recorded with what the receiving node
// did (ledger / cache admission, parking, messages sent with their gossiper lists decoded to
// [address, real signer, item signed for]) and judged by TLC from GossipNetTrace.tla.

import (
	"bufio"
	"bytes"
	"context"
	"crypto/ed25519"
	"crypto/sha256"
	"encoding/json"
	"fmt"
	"os"
	"runtime/pprof"
	"sort"
	"strings"
	"sync"
	"sync/atomic"
	"time"

	"google.golang.org/grpc"
	"google.golang.org/protobuf/proto"
	"google.golang.org/protobuf/types/known/emptypb"

	"github.com/bartossh/Computantis/src/accountant"
	"github.com/bartossh/Computantis/src/cache"
	"github.com/bartossh/Computantis/src/gossip"
	"github.com/bartossh/Computantis/src/pipe"
	pb "github.com/bartossh/Computantis/src/protobufcompiled"
	"github.com/bartossh/Computantis/src/spice"
	"github.com/bartossh/Computantis/src/transaction"
	"github.com/bartossh/Computantis/src/transformers"
	"github.com/bartossh/Computantis/src/wallet"
)

type gItem struct {
	ID     string `json:"id"`
	Kind   string `json:"kind"`
	Parent string `json:"parent"`
	Origin string `json:"origin"`
}

type gOp struct {
	Op   string   `json:"op"`
	I    string   `json:"i,omitempty"`
	F    string   `json:"f,omitempty"`
	T    string   `json:"t,omitempty"`
	N    string   `json:"n,omitempty"`
	C    string   `json:"c,omitempty"`
	B    string   `json:"b,omitempty"`
	V    string   `json:"v,omitempty"`
	Menu int      `json:"menu,omitempty"`
	Gs   []gEntry `json:"gs,omitempty"`
	Is   []string `json:"is,omitempty"` // burst: the items originated while the origin's gossip loops are stalled
}

type gBehaviour struct {
	ID    string              `json:"id"`
	Nodes []string            `json:"nodes"`
	Peers map[string][]string `json:"peers"`
	Bad   []string            `json:"bad"`
	Items []gItem             `json:"items"`
	Ops   []gOp               `json:"ops"`
	Drain bool                `json:"drain"`
}

type gMsg struct {
	id      int
	from    string
	to      string
	kind    string // "vrx", "trx", "get"
	item    string
	payload proto.Message
	reply   chan gReply
	forged  bool
}

type gReply struct {
	msg proto.Message
	err error
}

// lapsingFlash is the node's recent-hash memory: the repository's Flashback, replaced by an empty one when the
// behaviour says that the 20 s window has passed.
type lapsingFlash struct {
	mu sync.Mutex
	f  *cache.Flashback
}

func (l *lapsingFlash) cur() *cache.Flashback             { l.mu.Lock(); defer l.mu.Unlock(); return l.f }
func (l *lapsingFlash) HasHash(h []byte) (bool, error)    { return l.cur().HasHash(h) }
func (l *lapsingFlash) HasAddress(a string) (bool, error) { return l.cur().HasAddress(a) }
func (l *lapsingFlash) RemoveAddress(a string) error      { return l.cur().RemoveAddress(a) }
func (l *lapsingFlash) lapse() {
	nf, err := cache.NewFlash()
	if err != nil {
		fatal("flash: %v", err)
	}
	l.mu.Lock()
	old := l.f
	l.f = nf
	l.mu.Unlock()
	_ = old.Close()
}

type gNode struct {
	name   string
	w      *wallet.Wallet
	ab     *accountant.AccountingBook
	cache  *cache.Hippocampus
	flash  *lapsingFlash
	jug    *pipe.Juggler
	g      *gossip.VerifGossiper
	cancel context.CancelFunc
}

type vnet struct {
	resuming  atomic.Int64 // callers that have been answered and have not resumed yet
	mu        sync.Mutex
	inflight  []*gMsg
	delivered []*gMsg
	nextID    int
	nodes     map[string]*gNode
	byAddr    map[string]string
	pub       map[string]ed25519.PublicKey
	items     map[string]*gItem
	itemHash  map[string][32]byte // item -> hash once it exists
	hashItem  map[[32]byte]string
	vrx       map[string]*accountant.Vertex
	trx       map[string]*transaction.Transaction
	bad       map[string]bool
	gr, a, bw *wallet.Wallet
	enc       *json.Encoder
	b         *gBehaviour
}

type stubClient struct {
	net      *vnet
	from, to string
}

func (s *stubClient) Alive(ctx context.Context, in *emptypb.Empty, opts ...grpc.CallOption) (*pb.AliveData, error) {
	return nil, fmt.Errorf("not modelled")
}
func (s *stubClient) LoadDag(ctx context.Context, in *emptypb.Empty, opts ...grpc.CallOption) (pb.GossipAPI_LoadDagClient, error) {
	return nil, fmt.Errorf("not modelled")
}
func (s *stubClient) Announce(ctx context.Context, in *pb.ConnectionData, opts ...grpc.CallOption) (*emptypb.Empty, error) {
	return nil, fmt.Errorf("not modelled")
}
func (s *stubClient) Discover(ctx context.Context, in *pb.ConnectionData, opts ...grpc.CallOption) (*pb.ConnectedNodes, error) {
	return nil, fmt.Errorf("not modelled")
}
func (s *stubClient) GossipVrx(ctx context.Context, in *pb.VrxMsgGossip, opts ...grpc.CallOption) (*emptypb.Empty, error) {
	r := s.net.verifStubPark(s.from, s.to, "vrx", proto.Clone(in))
	e, _ := r.msg.(*emptypb.Empty)
	return e, r.err
}
func (s *stubClient) GossipTrx(ctx context.Context, in *pb.TrxMsgGossip, opts ...grpc.CallOption) (*emptypb.Empty, error) {
	r := s.net.verifStubPark(s.from, s.to, "trx", proto.Clone(in))
	e, _ := r.msg.(*emptypb.Empty)
	return e, r.err
}
func (s *stubClient) GetVertex(ctx context.Context, in *pb.SignedHash, opts ...grpc.CallOption) (*pb.Vertex, error) {
	r := s.net.verifStubPark(s.from, s.to, "get", proto.Clone(in))
	v, _ := r.msg.(*pb.Vertex)
	if r.err != nil {
		return nil, r.err
	}
	return v, nil
}

// verifStubPark registers an in-flight message and parks the calling goroutine until the harness answers.
func (n *vnet) verifStubPark(from, to, kind string, payload proto.Message) gReply {
	m := &gMsg{from: from, to: to, kind: kind, payload: payload, reply: make(chan gReply, 1)}
	n.mu.Lock()
	n.nextID++
	m.id = n.nextID
	switch p := payload.(type) {
	case *pb.VrxMsgGossip:
		m.item = n.itemOfHash(p.Vertex.GetHash())
	case *pb.TrxMsgGossip:
		m.item = n.itemOfHash(p.Trx.GetHash())
	case *pb.SignedHash:
		m.item = n.itemOfHash(p.Data)
	}
	n.inflight = append(n.inflight, m)
	n.mu.Unlock()
	r := <-m.reply
	n.resuming.Add(-1) // the caller is running again: from here on its stack shows it as busy
	return r
}

// answer hands a parked caller its reply and counts it as "resuming" until it runs again.
func (n *vnet) answer(m *gMsg, r gReply) {
	n.resuming.Add(1)
	m.reply <- r
}

func (n *vnet) itemOfHash(h []byte) string {
	if len(h) != 32 {
		return "unknown"
	}
	var k [32]byte
	copy(k[:], h)
	if it, ok := n.hashItem[k]; ok {
		return it
	}
	return "unknown"
}

// settle waits until no goroutine is running inside the gossip package outside a parked stub call.
func (n *vnet) settle() {
	// a caller that has been answered but has not been scheduled yet still looks parked: wait until it runs
	for i := 0; i < 200000 && n.resuming.Load() > 0; i++ {
		time.Sleep(50 * time.Microsecond)
	}
	stable := 0
	for i := 0; i < 4000 && stable < 2; i++ {
		var buf bytes.Buffer
		_ = pprof.Lookup("goroutine").WriteTo(&buf, 2)
		busy := false
		for _, g := range strings.Split(buf.String(), "\n\n") {
			if !strings.Contains(g, "Computantis/src/gossip.") {
				continue
			}
			if strings.Contains(g, "verifStubPark") && strings.Contains(strings.SplitN(g, "\n", 2)[0], "chan receive") {
				continue // parked in the virtual network, waiting for the harness to deliver its message
			}
			if strings.Contains(g, "runVertexGossipProcess") && strings.Contains(g, "[select") && !strings.Contains(g, "gossipVertex(") {
				continue // the origin loop waiting for the next vertex
			}
			if strings.Contains(g, "runTransactionGossipProcess") && strings.Contains(g, "[select") && !strings.Contains(g, "gossipTransaction(") {
				continue
			}
			busy = true
			break
		}
		if busy {
			stable = 0
			time.Sleep(200 * time.Microsecond)
		} else {
			stable++
			time.Sleep(100 * time.Microsecond)
		}
	}
}

func newVnet(b *gBehaviour, enc *json.Encoder) (*vnet, error) {
	n := &vnet{nodes: map[string]*gNode{}, byAddr: map[string]string{}, pub: map[string]ed25519.PublicKey{},
		items: map[string]*gItem{}, itemHash: map[string][32]byte{}, hashItem: map[[32]byte]string{},
		vrx: map[string]*accountant.Vertex{}, trx: map[string]*transaction.Transaction{}, bad: map[string]bool{}, enc: enc, b: b}
	for _, x := range b.Bad {
		n.bad[x] = true
	}
	mk := func() *wallet.Wallet { w, _ := wallet.New(); return &w }
	n.gr, n.a, n.bw = mk(), mk(), mk()
	for i := range b.Items {
		n.items[b.Items[i].ID] = &b.Items[i]
	}
	var first *gNode
	for _, name := range b.Nodes {
		w := mk()
		ctx, cancel := context.WithCancel(context.Background())
		ab, err := accountant.NewAccountingBook(ctx, accountant.Config{}, wallet.NewVerifier(), w, nopLogger{})
		if err != nil {
			cancel()
			return nil, err
		}
		cancel() // background loops of the book are driven through the hooks (as in the ledger driver)
		hc, err := cache.New(1<<12, 0)
		if err != nil {
			return nil, err
		}
		fl, err := cache.NewFlash()
		if err != nil {
			return nil, err
		}
		jug := pipe.New(16, 16)
		lf := &lapsingFlash{f: fl}
		gn := &gNode{name: name, w: w, ab: ab, cache: hc, flash: lf, jug: jug}
		gn.g = gossip.VerifNew(ab, wallet.NewVerifier(), w, nopLogger{}, hc, lf, jug, "url-"+name, time.Second)
		n.nodes[name] = gn
		n.byAddr[w.Address()] = name
		n.pub[name] = w.Public
		if first == nil {
			first = gn
			if _, err := ab.CreateGenesis("GENESIS", spice.New(1000, 0), []byte{}, n.gr.Address()); err != nil {
				return nil, err
			}
		}
	}
	time.Sleep(2 * time.Millisecond)
	// every other node syncs the genesis from the first one
	for _, name := range b.Nodes {
		gn := n.nodes[name]
		if gn == first {
			continue
		}
		ch := make(chan *accountant.Vertex, 4)
		for v := range first.ab.StreamDAG(context.Background()) {
			c := *v
			ch <- &c
		}
		close(ch)
		_, cancel := context.WithCancelCause(context.Background())
		gn.ab.LoadDag(cancel, ch)
		if !gn.ab.DagLoaded() {
			return nil, fmt.Errorf("node %s could not load the genesis", name)
		}
	}
	for _, name := range b.Nodes {
		gn := n.nodes[name]
		for _, p := range b.Peers[name] {
			gn.g.AddPeer(n.nodes[p].w.Address(), "url-"+p, &stubClient{net: n, from: name, to: p})
		}
		ctx, cancel := context.WithCancel(context.Background())
		gn.cancel = cancel
		go gn.g.RunVertexGossip(ctx)
		go gn.g.RunTransactionGossip(ctx)
	}
	n.pub["GR"], n.pub["A"], n.pub["B"] = n.gr.Public, n.a.Public, n.bw.Public
	return n, nil
}

func (n *vnet) close() {
	n.mu.Lock()
	for _, m := range n.inflight {
		n.answer(m, gReply{err: fmt.Errorf("network closed")})
	}
	n.inflight = nil
	n.mu.Unlock()
	for _, gn := range n.nodes {
		if gn.cancel != nil {
			gn.cancel()
		}
		gn.jug.Close()
		gn.ab.VerifClose()
		gn.cache.Close()
		_ = gn.flash.cur().Close()
	}
}

// ---- observation ----

type gEntry struct {
	Addr string `json:"addr"`
	By   string `json:"by"`
	For  string `json:"for"`
}

// decode says who a gossiper entry claims to be, which key really signed it and for which item.
func (n *vnet) decode(gs []*pb.Gossiper) []gEntry {
	out := []gEntry{}
	for _, g := range gs {
		e := gEntry{Addr: "unknown", By: "garbage", For: "none"}
		if name, ok := n.byAddr[g.GetAddress()]; ok {
			e.Addr = name
		}
		for it, h := range n.itemHash {
			d := sha256.Sum256(append([]byte(g.GetAddress()), h[:]...))
			if bytes.Equal(d[:], g.GetDigest()) {
				e.For = it
			}
		}
		if len(g.GetDigest()) == 32 {
			for name, pk := range n.pub {
				if ed25519.Verify(pk, g.GetDigest(), g.GetSignature()) {
					e.By = name
				}
			}
		}
		if e.For == "none" || e.By == "garbage" {
			e.By, e.For = "garbage", "none"
		}
		out = append(out, e)
	}
	sort.Slice(out, func(i, j int) bool { return out[i].Addr+out[i].By+out[i].For < out[j].Addr+out[j].By+out[j].For })
	return out
}

func sameEntries(a, b []gEntry) bool {
	set := func(x []gEntry) map[gEntry]bool {
		m := map[gEntry]bool{}
		for _, e := range x {
			m[e] = true
		}
		return m
	}
	sa, sb := set(a), set(b)
	if len(sa) != len(sb) {
		return false
	}
	for e := range sa {
		if !sb[e] {
			return false
		}
	}
	return true
}

func gossipersOf(m *gMsg) []*pb.Gossiper {
	switch p := m.payload.(type) {
	case *pb.VrxMsgGossip:
		return p.Gossipers
	case *pb.TrxMsgGossip:
		return p.Gossipers
	}
	return nil
}

func (n *vnet) admitted(node string) []string {
	gn := n.nodes[node]
	out := []string{}
	for _, it := range n.b.Items {
		h, ok := n.itemHash[it.ID]
		if !ok {
			continue
		}
		if it.Kind == "vrx" {
			if _, err := gn.ab.ReadVertex(context.Background(), h); err == nil {
				out = append(out, it.ID)
			}
		} else {
			present, _ := gn.cache.VerifPeek([][32]byte{h}, nil)
			if present[h] {
				out = append(out, it.ID)
			}
		}
	}
	sort.Strings(out)
	return out
}

func (n *vnet) parkedAt(node string) []string {
	out := []string{}
	s, err := n.nodes[node].ab.VerifSnapshot()
	if err != nil {
		return out
	}
	for _, p := range s.Parked {
		if it, ok := n.hashItem[p.Vertex.Hash]; ok {
			out = append(out, it)
		} else {
			out = append(out, "unknown")
		}
	}
	sort.Strings(out)
	return out
}

type gSent struct {
	To string   `json:"to"`
	Gs []gEntry `json:"gs"`
}

// newSince lists messages that entered the network after message id `after`.
func (n *vnet) newSince(after int) (sent []map[string]any, gets []map[string]any) {
	sent, gets = []map[string]any{}, []map[string]any{}
	n.mu.Lock()
	defer n.mu.Unlock()
	for _, m := range n.inflight {
		if m.id <= after {
			continue
		}
		if m.kind == "get" {
			gets = append(gets, map[string]any{"from": m.from, "to": m.to, "want": m.item})
		} else {
			sent = append(sent, map[string]any{"from": m.from, "to": m.to, "item": m.item, "gs": n.decode(gossipersOf(m))})
		}
	}
	return
}

func (n *vnet) take(pred func(m *gMsg) bool) *gMsg {
	n.mu.Lock()
	defer n.mu.Unlock()
	for i, m := range n.inflight {
		if pred(m) {
			n.inflight = append(n.inflight[:i], n.inflight[i+1:]...)
			return m
		}
	}
	return nil
}

func (n *vnet) lastID() int {
	n.mu.Lock()
	defer n.mu.Unlock()
	return n.nextID
}

func (n *vnet) emit(e map[string]any) { _ = n.enc.Encode(e) }

// deliver hands message m to the real handler of its target and records what the target did.
func (n *vnet) deliver(m *gMsg, dup bool) {
	before := n.lastID()
	target := n.nodes[m.to]
	var r gReply
	func() {
		defer func() {
			if rec := recover(); rec != nil {
				r = gReply{err: fmt.Errorf("panic: %v", rec)}
			}
		}()
		switch p := m.payload.(type) {
		case *pb.VrxMsgGossip:
			e, err := target.g.Server().GossipVrx(context.Background(), proto.Clone(p).(*pb.VrxMsgGossip))
			r = gReply{msg: e, err: err}
		case *pb.TrxMsgGossip:
			e, err := target.g.Server().GossipTrx(context.Background(), proto.Clone(p).(*pb.TrxMsgGossip))
			r = gReply{msg: e, err: err}
		case *pb.SignedHash:
			v, err := target.g.Server().GetVertex(context.Background(), proto.Clone(p).(*pb.SignedHash))
			if err != nil {
				r = gReply{err: err}
			} else {
				r = gReply{msg: v}
			}
		}
	}()
	if !dup && m.reply != nil {
		n.answer(m, r)
	}
	n.settle()
	res := "ok"
	if r.err != nil {
		res = "err"
		if strings.HasPrefix(r.err.Error(), "panic") {
			res = "panic"
		}
	}
	sent, gets := n.newSince(before)
	if m.kind == "get" {
		n.emit(map[string]any{"a": "Get", "from": m.from, "to": m.to, "want": m.item, "res": res,
			"adm": n.admitted(m.from), "parked": n.parkedAt(m.from), "new": sent, "gets": gets})
		return
	}
	a := "Receive"
	if dup {
		a = "Duplicate"
	}
	n.emit(map[string]any{"a": a, "from": m.from, "to": m.to, "item": m.item, "gs": n.decode(gossipersOf(m)), "res": res,
		"forged": m.forged, "adm": n.admitted(m.to), "parked": n.parkedAt(m.to), "new": sent, "gets": gets})
	n.mu.Lock()
	n.delivered = append(n.delivered, m)
	n.mu.Unlock()
}

func (n *vnet) originate(it *gItem) {
	before := n.lastID()
	gn := n.nodes[it.Origin]
	res := "ok"
	if it.Kind == "vrx" {
		t, err := transaction.New("gossip "+it.ID, spice.New(1, 0), nil, n.a.Address(), n.gr)
		if err != nil {
			fatal("trx: %v", err)
		}
		v, err := gn.ab.CreateLeaf(context.Background(), &t)
		if err != nil {
			res = "err"
		} else {
			n.vrx[it.ID] = &v
			n.itemHash[it.ID] = v.Hash
			n.hashItem[v.Hash] = it.ID
			gn.ab.VerifDrainTruncateSignal()
			vc := v
			gn.jug.SendVrx(&vc)
		}
	} else {
		t, err := transaction.New("contract "+it.ID, spice.New(0, 0), []byte("payload "+it.ID), n.bw.Address(), n.a)
		if err != nil {
			fatal("trx: %v", err)
		}
		n.trx[it.ID] = &t
		n.itemHash[it.ID] = t.Hash
		n.hashItem[t.Hash] = it.ID
		if err := gn.cache.SaveAwaitedTransaction(&t); err != nil {
			res = "err"
		}
		pt, _ := transformers.TrxToProtoTrx(t)
		gn.jug.SendTrx(pt)
	}
	// the juggler hands over in a goroutine of its own: wait until the origin loop has sent to every peer
	for i := 0; i < 2000; i++ {
		n.settle()
		sent, _ := n.newSince(before)
		if res != "ok" || len(sent) >= len(n.b.Peers[it.Origin]) {
			break
		}
		time.Sleep(200 * time.Microsecond)
	}
	sent, gets := n.newSince(before)
	n.emit(map[string]any{"a": "Originate", "item": it.ID, "n": it.Origin, "res": res, "adm": n.admitted(it.Origin),
		"new": sent, "gets": gets})
}

// burst: the node's gossip loops are stalled (in production: the peer table is write-locked by a discovery, or a peer is
// slow) while it accepts a series of vertices; when the loops run again every one of them is gossiped. The vertices
// are handed to the pipe exactly as the notary does; the Originate events are written once the loops have caught up,
// each with the messages that carry its item.
func (n *vnet) burst(op gOp) {
	gn := n.nodes[op.N]
	if gn == nil {
		return
	}
	gn.cancel()
	time.Sleep(5 * time.Millisecond)
	type rec struct {
		id, res string
		adm     []string
	}
	var recs []rec
	before := n.lastID()
	for _, id := range op.Is {
		it := n.items[id]
		if it == nil || it.Kind != "vrx" || it.Origin != op.N {
			continue
		}
		t, err := transaction.New("gossip "+it.ID, spice.New(1, 0), nil, n.a.Address(), n.gr)
		if err != nil {
			fatal("trx: %v", err)
		}
		res := "ok"
		v, err := gn.ab.CreateLeaf(context.Background(), &t)
		if err != nil {
			res = "err"
		} else {
			n.vrx[it.ID] = &v
			n.itemHash[it.ID] = v.Hash
			n.hashItem[v.Hash] = it.ID
			gn.ab.VerifDrainTruncateSignal()
			vc := v
			gn.jug.SendVrx(&vc)
		}
		recs = append(recs, rec{id: id, res: res, adm: n.admitted(op.N)})
	}
	ctx, cancel := context.WithCancel(context.Background())
	gn.cancel = cancel
	go gn.g.RunVertexGossip(ctx)
	go gn.g.RunTransactionGossip(ctx)
	want := len(recs) * len(n.b.Peers[op.N])
	for i, last, still := 0, -1, 0; i < 20000 && still < 1500; i++ {
		n.settle()
		sent, _ := n.newSince(before)
		if len(sent) >= want {
			break
		}
		if len(sent) == last {
			still++
		} else {
			last, still = len(sent), 0
		}
		time.Sleep(200 * time.Microsecond)
	}
	// the pipe hands over from one goroutine per vertex, in no particular order: let the network deliver parents first
	pos := map[string]int{}
	for i, id := range op.Is {
		pos[id] = i
	}
	n.mu.Lock()
	sort.SliceStable(n.inflight, func(i, j int) bool {
		a, b := n.inflight[i], n.inflight[j]
		if a.id <= before || b.id <= before {
			return a.id < b.id
		}
		return pos[a.item] < pos[b.item]
	})
	n.mu.Unlock()
	sent, _ := n.newSince(before)
	for _, r := range recs {
		mine := []map[string]any{}
		for _, m := range sent {
			if m["item"] == r.id {
				mine = append(mine, m)
			}
		}
		n.emit(map[string]any{"a": "Originate", "item": r.id, "n": op.N, "res": r.res, "adm": r.adm, "new": mine, "gets": []map[string]any{}})
	}
}

// forge builds the list an adversarial relay attaches: menu numbers follow ForgeMenu of GossipNet.tla.
func (n *vnet) forge(op gOp) {
	it := n.items[op.I]
	h, ok := n.itemHash[op.I]
	if it == nil || !ok {
		return
	}
	bad := n.nodes[op.B]
	victim := n.nodes[op.V]
	sign := func(w *wallet.Wallet, addr string, hash [32]byte) *pb.Gossiper {
		d, s := w.Sign(append([]byte(addr), hash[:]...))
		return &pb.Gossiper{Address: addr, Digest: d[:], Signature: s}
	}
	var seen []*pb.Gossiper
	n.mu.Lock()
	for _, m := range n.delivered {
		if m.to == op.B {
			seen = append(seen, gossipersOf(m)...)
		}
	}
	n.mu.Unlock()
	var gs []*pb.Gossiper
	switch op.Menu {
	case 1:
	case 2:
		gs = append(gs, sign(bad.w, victim.w.Address(), h))
	case 3:
		for _, g := range seen {
			if g.Address == victim.w.Address() {
				e := n.decode([]*pb.Gossiper{g})[0]
				if e.By == op.V && e.For != op.I {
					gs = append(gs, g)
				}
			}
		}
	case 4:
		gs = append(gs, &pb.Gossiper{Address: victim.w.Address(), Digest: bytes.Repeat([]byte{7}, 32), Signature: bytes.Repeat([]byte{9}, 64)})
	case 7:
		// menu 4 a hundred and twenty times over: a list far longer than any honest network produces
		for k := 0; k < 120; k++ {
			gs = append(gs, &pb.Gossiper{Address: victim.w.Address(), Digest: bytes.Repeat([]byte{7}, 32), Signature: bytes.Repeat([]byte{9}, 64)})
		}
	case 5:
		gs = append(gs, seen...)
		gs = append(gs, sign(bad.w, bad.w.Address(), h))
	case 6:
		for _, g := range seen {
			if e := n.decode([]*pb.Gossiper{g})[0]; e.For == op.I {
				gs = append(gs, g)
			}
		}
		gs = append(gs, sign(bad.w, victim.w.Address(), h), sign(bad.w, bad.w.Address(), h))
	}
	var payload proto.Message
	if it.Kind == "vrx" {
		payload = &pb.VrxMsgGossip{Vertex: vertexToProto(n.vrx[op.I]), Gossipers: gs}
	} else {
		pt, _ := transformers.TrxToProtoTrx(*n.trx[op.I])
		payload = &pb.TrxMsgGossip{Trx: pt, Gossipers: gs}
	}
	n.mu.Lock()
	n.nextID++
	m := &gMsg{id: n.nextID, from: op.B, to: op.T, kind: it.Kind, item: op.I, payload: payload, forged: true}
	n.inflight = append(n.inflight, m)
	n.mu.Unlock()
	n.emit(map[string]any{"a": "Forge", "b": op.B, "to": op.T, "item": op.I, "menu": op.Menu, "gs": n.decode(gs)})
}

// poison sends the hash of a known vertex with content that does not verify (one signature byte changed)
func (n *vnet) poison(op gOp) {
	it := n.items[op.I]
	if it == nil || it.Kind != "vrx" || n.vrx[op.I] == nil || n.bad[op.T] {
		return
	}
	before := n.lastID()
	pv := vertexToProto(n.vrx[op.I])
	pv.Signature = append([]byte{}, pv.Signature...)
	pv.Signature[5] ^= 0x10
	target := n.nodes[op.T]
	res := "ok"
	func() {
		defer func() {
			if r := recover(); r != nil {
				res = "panic"
			}
		}()
		if _, err := target.g.Server().GossipVrx(context.Background(), &pb.VrxMsgGossip{Vertex: pv}); err != nil {
			res = "err"
		}
	}()
	n.settle()
	sent, gets := n.newSince(before)
	n.emit(map[string]any{"a": "Poison", "b": op.B, "to": op.T, "item": op.I, "res": res, "adm": n.admitted(op.T), "new": sent, "gets": gets})
}

func vertexToProto(v *accountant.Vertex) *pb.Vertex {
	return &pb.Vertex{
		SignerPublicAddress: v.SignerPublicAddress, CreatedAt: uint64(v.CreatedAt.UnixNano()), Signature: v.Signature,
		Transaction: &pb.Transaction{Subject: v.Transaction.Subject, Data: v.Transaction.Data, Hash: v.Transaction.Hash[:],
			CreatedAt: uint64(v.Transaction.CreatedAt.UnixNano()), ReceiverAddress: v.Transaction.ReceiverAddress,
			IssuerAddress: v.Transaction.IssuerAddress, ReceiverSignature: v.Transaction.ReceiverSignature,
			IssuerSignature: v.Transaction.IssuerSignature,
			Spice:           &pb.Spice{Currency: v.Transaction.Spice.Currency, SupplementaryCurrency: v.Transaction.Spice.SupplementaryCurrency}},
		Hash: v.Hash[:], LeftParentHash: v.LeftParentHash[:], RightParentHash: v.RightParentHash[:], Weight: v.Weight,
	}
}

func (n *vnet) retry(node string) {
	gn := n.nodes[node]
	popped, h, _ := gn.ab.VerifRetryPop()
	item := "none"
	res := "empty"
	if popped {
		item = n.hashItem[h]
		err := gn.ab.VerifRetryRun(context.Background())
		gn.ab.VerifDrainTruncateSignal()
		res = "ok"
		if err != nil {
			res = "err"
		}
	}
	n.emit(map[string]any{"a": "Retry", "n": node, "item": item, "res": res, "adm": n.admitted(node), "parked": n.parkedAt(node)})
}

func (n *vnet) run() {
	b := n.b
	n.emit(map[string]any{"a": "Reset", "id": b.ID, "nodes": b.Nodes, "peers": b.Peers, "bad": b.Bad, "items": b.Items})
	for _, op := range b.Ops {
		switch op.Op {
		case "originate":
			if it := n.items[op.I]; it != nil {
				if _, done := n.itemHash[op.I]; !done {
					n.originate(it)
				}
			}
		case "receive":
			match := func(m *gMsg) bool { return m.kind != "get" && m.from == op.F && m.to == op.T && m.item == op.I }
			// several forged messages may be in flight between the same pair: take the one with the list the behaviour names
			m := n.take(func(m *gMsg) bool { return match(m) && sameEntries(n.decode(gossipersOf(m)), op.Gs) })
			if m == nil {
				m = n.take(match)
			}
			if m == nil {
				// not in flight: the behaviour redelivers a copy of a message that was delivered before
				var found *gMsg
				n.mu.Lock()
				for _, d := range n.delivered {
					if d.from == op.F && d.to == op.T && d.item == op.I {
						found = d
					}
				}
				n.mu.Unlock()
				if found != nil && !n.bad[found.to] {
					n.deliver(found, true)
				} else if found == nil {
					n.emit(map[string]any{"a": "Missing", "from": op.F, "to": op.T, "item": op.I})
				}
				continue
			}
			if n.bad[m.to] {
				// the adversary's own node is played by the harness: it absorbs the message
				if m.reply != nil {
					n.answer(m, gReply{msg: &emptypb.Empty{}})
				}
				n.mu.Lock()
				n.delivered = append(n.delivered, m)
				n.mu.Unlock()
				n.emit(map[string]any{"a": "Absorb", "from": m.from, "to": m.to, "item": m.item, "gs": n.decode(gossipersOf(m))})
				continue
			}
			n.deliver(m, false)
		case "dup":
			// the copy is delivered when the behaviour receives it
		case "pull":
			// deliver the parent requests of node op.N that are in flight, one after the other
			for {
				m := n.take(func(m *gMsg) bool { return m.kind == "get" && m.from == op.N })
				if m == nil {
					break
				}
				n.deliver(m, false)
			}
		case "retry":
			n.retry(op.N)
		case "forge":
			n.forge(op)
		case "burst":
			n.burst(op)
		case "expire":
			if gn := n.nodes[op.N]; gn != nil && !n.bad[op.N] {
				n.settle()
				gn.flash.lapse()
				n.emit(map[string]any{"a": "Expire", "n": op.N})
			}
		case "poison":
			n.poison(op)
		}
	}
	if b.Drain {
		// whatever is still in flight is delivered in order of creation; then the retry loops run
		for round := 0; round < 200; round++ {
			m := n.take(func(m *gMsg) bool { return true })
			if m == nil {
				progressed := false
				for _, name := range b.Nodes {
					if n.bad[name] {
						continue
					}
					if len(n.parkedAt(name)) > 0 {
						n.retry(name)
						progressed = true
					}
				}
				n.settle()
				if !progressed || round > 150 {
					if n.take(func(m *gMsg) bool { return false }) == nil && n.lastIDStable() {
						break
					}
				}
				continue
			}
			if n.bad[m.to] {
				if m.reply != nil {
					n.answer(m, gReply{msg: &emptypb.Empty{}})
				}
				n.mu.Lock()
				n.delivered = append(n.delivered, m)
				n.mu.Unlock()
				n.emit(map[string]any{"a": "Absorb", "from": m.from, "to": m.to, "item": m.item, "gs": n.decode(gossipersOf(m))})
				continue
			}
			n.deliver(m, false)
		}
	}
	state := map[string]any{}
	for _, name := range b.Nodes {
		state[name] = map[string]any{"adm": n.admitted(name), "parked": n.parkedAt(name)}
	}
	n.mu.Lock()
	left := len(n.inflight)
	n.mu.Unlock()
	n.emit(map[string]any{"a": "Quiesce", "state": state, "inflight": left})
}

func (n *vnet) lastIDStable() bool {
	n.mu.Lock()
	defer n.mu.Unlock()
	return len(n.inflight) == 0
}

// gossipMain: drive gossip <behaviours.ndjson> <trace.ndjson>
func gossipMain(args []string) {
	if len(args) != 2 {
		fatal("usage: drive gossip <behaviours.ndjson> <trace.ndjson>")
	}
	in, err := os.Open(args[0])
	if err != nil {
		fatal("%v", err)
	}
	outf, err := os.Create(args[1])
	if err != nil {
		fatal("%v", err)
	}
	bw := bufio.NewWriterSize(outf, 1<<20)
	enc := json.NewEncoder(bw)
	sc := bufio.NewScanner(in)
	sc.Buffer(make([]byte, 1<<20), 1<<26)
	nb := 0
	for sc.Scan() {
		line := bytes.TrimSpace(sc.Bytes())
		if len(line) == 0 {
			continue
		}
		var b gBehaviour
		if err := json.Unmarshal(line, &b); err != nil {
			fatal("behaviour %d: %v", nb, err)
		}
		n, err := newVnet(&b, enc)
		if err != nil {
			fatal("network: %v", err)
		}
		n.run()
		n.close()
		bw.Flush()
		nb++
	}
	outf.Close()
	fmt.Printf("{\"behaviours\":%d}\n", nb)
}
