package main

// Shape driver (C15): every request shape enumerated by TLC from RpcShapes.tla is built concretely and sent to
// the REAL handler objects of the notary, gossip and webhook services (hooks VerifNew) under recover(),
// against a node with a non-trivial ledger, awaiting cache and peer table. Recorded per request: reply /
// error / panic, and whether ledger, awaiting cache and peer table are unchanged.

import (
	"bufio"
	"bytes"
	"context"
	"crypto/sha256"
	"encoding/binary"
	"encoding/json"
	"fmt"
	"os"
	"sort"
	"strings"
	"time"

	"github.com/bartossh/Computantis/src/accountant"
	"github.com/bartossh/Computantis/src/gossip"
	pb "github.com/bartossh/Computantis/src/protobufcompiled"
	"github.com/bartossh/Computantis/src/serializer"
	"github.com/bartossh/Computantis/src/spice"
	"github.com/bartossh/Computantis/src/transaction"
	"github.com/bartossh/Computantis/src/transformers"
	"github.com/bartossh/Computantis/src/wallet"
	"github.com/bartossh/Computantis/src/webhooks"
	"github.com/bartossh/Computantis/src/webhooksserver"
)

type shapeCase struct {
	Rpc   string            `json:"rpc"`
	Msg   string            `json:"msg"`
	Shape map[string]string `json:"shape"`
	Must  bool              `json:"must"`
}

type shapeWorld struct {
	n      *nWorld
	g      *gossip.VerifGossiper
	wh     pb.WebhooksAPIServer
	peer   *wallet.Wallet
	seq    int
	recent [][32]byte
}

var lastLive map[string]accountant.Vertex

var huge = bytes.Repeat([]byte{0xAB}, 1<<20)

func bytesClass(class string, valid []byte) []byte {
	switch class {
	case "exact", "small":
		return valid
	case "nil":
		return nil
	case "empty":
		return []byte{}
	case "short1":
		return valid[:min(1, len(valid))]
	case "short31", "short":
		return valid[:max(0, min(len(valid)-1, 31))]
	case "long33", "long":
		return append(append([]byte{}, valid...), 0x01)
	case "huge":
		return append(append([]byte{}, valid...), huge...)
	}
	return valid
}

func wrongKeyLenAddress() string {
	payload := append([]byte{0x00}, bytes.Repeat([]byte{7}, 20)...)
	h1 := sha256.Sum256(payload)
	h2 := sha256.Sum256(h1[:])
	return string(serializer.Base58Encode(append(payload, h2[:4]...)))
}

func addrClass(class string, valid, other *wallet.Wallet) string {
	switch class {
	case "valid":
		return valid.Address()
	case "empty":
		return ""
	case "garbage":
		return "0OIl-not-base58-0OIl"
	case "wrongkeylen":
		return wrongKeyLenAddress()
	case "other":
		return other.Address()
	}
	return valid.Address()
}

func strClass(class, valid string) string {
	switch class {
	case "empty":
		return ""
	case "huge":
		return valid + string(huge)
	}
	return valid
}

func u64Class(class string, valid uint64) uint64 {
	switch class {
	case "zero":
		return 0
	case "max":
		return ^uint64(0)
	}
	return valid
}

func newWallet() *wallet.Wallet { w, _ := wallet.New(); return &w }

type shapeState struct {
	live, stored, index map[string]bool
	parked, awaiting    int
	peers               string
}

// state returns what a rejected request must leave unchanged.
func (w *shapeWorld) state() shapeState {
	st := shapeState{live: map[string]bool{}, stored: map[string]bool{}, index: map[string]bool{}}
	s, err := w.n.ab.VerifSnapshot()
	if err != nil {
		st.peers = "snapshot error"
		return st
	}
	for k := range s.Live {
		st.live[k] = true
	}
	for k := range s.Stored {
		st.stored[k] = true
	}
	for k := range s.Index {
		st.index[k] = true
	}
	st.parked = len(s.Parked)
	present, _ := w.n.hc.VerifPeek(w.recent, nil)
	for _, p := range present {
		if p {
			st.awaiting++
		}
	}
	peers := w.g.PeerAddresses()
	sort.Strings(peers)
	st.peers = strings.Join(peers, ",")
	return st
}

// unchangedBy: nothing was added to the ledger, the awaiting cache or the peer table. The ledger may have
// dropped an invalid tentative tip while it refused the request (that is its own maintenance, property C01).
func unchangedBy(before, after shapeState) bool {
	sub := func(a, b map[string]bool) bool {
		for k := range a {
			if !b[k] {
				return false
			}
		}
		return true
	}
	return sub(after.live, before.live) && sub(after.index, before.index) && sub(after.stored, before.stored) &&
		len(after.stored) == len(before.stored) && after.parked == before.parked && after.awaiting == before.awaiting &&
		after.peers == before.peers
}

func (s shapeState) String() string {
	return fmt.Sprintf("live=%d stored=%d index=%d parked=%d awaiting=%d peers=%s", len(s.live), len(s.stored), len(s.index), s.parked,
		s.awaiting, s.peers)
}

func (w *shapeWorld) freshTrx(contract bool, sp uint64) transaction.Transaction {
	w.seq++
	var data []byte
	if contract {
		data = []byte(fmt.Sprintf("contract payload %d", w.seq))
	}
	t, _ := transaction.New(fmt.Sprintf("shape %d", w.seq), spice.New(sp, 0), data, w.n.wl["B"].Address(), w.n.wl["A"])
	return t
}

func (w *shapeWorld) track(h [32]byte) {
	w.recent = append(w.recent, h)
	if len(w.recent) > 64 {
		w.recent = w.recent[1:]
	}
}

// protoTrx builds a Transaction message from a valid transaction and the classes of its fields.
func (w *shapeWorld) protoTrx(t transaction.Transaction, sh map[string]string, rsigValid []byte) *pb.Transaction {
	get := func(f, def string) string {
		if c, ok := sh[f]; ok {
			return c
		}
		return def
	}
	other := w.n.wl["M"]
	p := &pb.Transaction{
		Subject:           strClass(get("subject", "small"), t.Subject),
		Data:              bytesClass(get("data", "small"), t.Data),
		Hash:              bytesClass(get("hash", get("thash", "exact")), t.Hash[:]),
		CreatedAt:         u64Class(get("created", "one"), uint64(t.CreatedAt.UnixNano())),
		ReceiverAddress:   addrClass(get("receiver", "valid"), w.n.wl["B"], other),
		IssuerAddress:     addrClass(get("issuer", "valid"), w.n.wl["A"], other),
		ReceiverSignature: bytesClass(get("rsig", "exact"), rsigValid),
		IssuerSignature:   bytesClass(get("isig", "exact"), t.IssuerSignature),
	}
	if get("spice", "present") == "present" {
		p.Spice = &pb.Spice{Currency: t.Spice.Currency, SupplementaryCurrency: t.Spice.SupplementaryCurrency}
	}
	return p
}

// signedHash builds a SignedHash whose hash and signature are computed over the data actually sent.
func (w *shapeWorld) signedHash(sh map[string]string, signer *wallet.Wallet, validData []byte) *pb.SignedHash {
	data := bytesClass(sh["data"], validData)
	d, s := signer.Sign(data)
	return &pb.SignedHash{
		Address:   addrClass(sh["address"], signer, w.n.wl["M"]),
		Data:      data,
		Hash:      bytesClass(sh["hash"], d[:]),
		Signature: bytesClass(sh["signature"], s),
	}
}

func (w *shapeWorld) gossipers(class string, item [32]byte) []*pb.Gossiper {
	mk := func(wl *wallet.Wallet) *pb.Gossiper {
		d, s := wl.Sign(append([]byte(wl.Address()), item[:]...))
		return &pb.Gossiper{Address: wl.Address(), Digest: d[:], Signature: s}
	}
	switch class {
	case "nil":
		return nil
	case "garbageentry":
		return []*pb.Gossiper{{Address: w.peer.Address()}, {Address: "", Digest: []byte{1}, Signature: []byte{2}}, mk(w.peer)}
	case "many":
		var out []*pb.Gossiper
		for i := 0; i < 40; i++ {
			out = append(out, mk(newWallet()))
		}
		return out
	}
	return []*pb.Gossiper{mk(w.peer)}
}

// prepare does the set-up a request needs (an awaiting contract, a challenge, ...) and returns the call itself
func (w *shapeWorld) prepare(c shapeCase) func() error {
	ctx := context.Background()
	var run func() error
	sh := c.Shape
	switch c.Rpc {
	case "notary.Propose":
		t := w.freshTrx(false, 1)
		run = func() error { _, e := w.n.srv.Propose(ctx, w.protoTrx(t, sh, nil)); return e }
	case "notary.Confirm":
		t := w.freshTrx(true, 0)
		w.track(t.Hash)
		pt, _ := transformers.TrxToProtoTrx(t)
		_, _ = w.n.srv.Propose(ctx, pt)
		_, rs := w.n.wl["B"].Sign(t.GetMessage())
		run = func() error { _, e := w.n.srv.Confirm(ctx, w.protoTrx(t, sh, rs)); return e }
	case "notary.Reject":
		t := w.freshTrx(true, 0)
		w.track(t.Hash)
		pt, _ := transformers.TrxToProtoTrx(t)
		_, _ = w.n.srv.Propose(ctx, pt)
		run = func() error { _, e := w.n.srv.Reject(ctx, w.signedHash(sh, w.n.wl["B"], t.Hash[:])); return e }
	case "notary.Waiting", "notary.TransactionsInDAG":
		// a fresh wallet per request: the read throttle marks an address for 20 s
		u := newWallet()
		t, _ := transaction.New("for the fresh wallet", spice.New(0, 0), []byte("x"), u.Address(), w.n.wl["A"])
		pt, _ := transformers.TrxToProtoTrx(t)
		_, _ = w.n.srv.Propose(ctx, pt)
		blob, _ := w.n.srv.Data(ctx, &pb.Address{Public: u.Address()})
		req := w.signedHash(sh, u, blob.Blob)
		if c.Rpc == "notary.Waiting" {
			run = func() error { _, e := w.n.srv.Waiting(ctx, req); return e }
		} else {
			run = func() error { _, e := w.n.srv.TransactionsInDAG(ctx, req); return e }
		}
	case "notary.Saved":
		t := w.freshTrx(false, 1)
		pt, _ := transformers.TrxToProtoTrx(t)
		_, _ = w.n.srv.Propose(ctx, pt)
		run = func() error { _, e := w.n.srv.Saved(ctx, w.signedHash(sh, w.n.wl["A"], t.Hash[:])); return e }
	case "notary.Balance":
		u := newWallet()
		run = func() error { _, e := w.n.srv.Balance(ctx, w.signedHash(sh, u, []byte(u.Address()))); return e }
	case "notary.Data":
		run = func() error {
			_, e := w.n.srv.Data(ctx, &pb.Address{Public: addrClass(sh["public"], w.n.wl["A"], w.n.wl["M"])})
			return e
		}
	case "gossip.Announce", "gossip.Discover":
		u := newWallet()
		url := strClass(sh["url"], "localhost:1")
		created := u64Class(sh["created"], uint64(time.Now().UnixNano()))
		addr := addrClass(sh["address"], u, w.n.wl["M"])
		blk := binary.LittleEndian.AppendUint64(nil, created)
		d, s := u.Sign(bytes.Join([][]byte{[]byte(addr), []byte(url), blk}, nil))
		cd := &pb.ConnectionData{PublicAddress: addr, Url: url, CreatedAt: created, Digest: bytesClass(sh["digest"], d[:]),
			Signature: bytesClass(sh["signature"], s)}
		if c.Rpc == "gossip.Announce" {
			run = func() error { _, e := w.g.Server().Announce(ctx, cd); return e }
		} else {
			run = func() error { _, e := w.g.Server().Discover(ctx, cd); return e }
		}
	case "gossip.GossipVrx":
		s, _ := w.n.ab.VerifSnapshot()
		var tip accountant.Vertex
		for _, id := range s.Tips {
			tip = s.Live[id]
		}
		t := w.freshTrx(true, 0)
		// the transaction is awaiting on this node: a vertex gossip that is refused must leave it awaiting
		_ = w.n.hc.SaveAwaitedTransaction(&t)
		w.track(t.Hash)
		v, _ := accountant.NewVertex(t, tip.Hash, tip.Hash, tip.Weight+1, w.peer)
		pv := vertexToProto(&v)
		pv.Hash = bytesClass(sh["vhash"], v.Hash[:])
		pv.LeftParentHash = bytesClass(sh["left"], v.LeftParentHash[:])
		pv.RightParentHash = bytesClass(sh["right"], v.RightParentHash[:])
		pv.Signature = bytesClass(sh["vsig"], v.Signature)
		pv.SignerPublicAddress = addrClass(sh["signer"], w.peer, w.n.wl["M"])
		pv.Transaction = w.protoTrx(t, sh, nil)
		if sh["trx"] == "nil" {
			pv.Transaction = nil
		}
		msg := &pb.VrxMsgGossip{Vertex: pv, Gossipers: w.gossipers(sh["gossipers"], v.Hash)}
		if sh["vertex"] == "nil" {
			msg.Vertex = nil
		}
		run = func() error {
			_, e := w.g.Server().GossipVrx(ctx, msg)
			w.n.ab.VerifDrainTruncateSignal()
			return e
		}
	case "gossip.GossipTrx":
		t := w.freshTrx(true, 0)
		w.track(t.Hash)
		msg := &pb.TrxMsgGossip{Trx: w.protoTrx(t, sh, nil), Gossipers: w.gossipers(sh["gossipers"], t.Hash)}
		if sh["trx"] == "nil" {
			msg.Trx = nil
		}
		run = func() error { _, e := w.g.Server().GossipTrx(ctx, msg); return e }
	case "gossip.GetVertex":
		s, _ := w.n.ab.VerifSnapshot()
		var tip accountant.Vertex
		for _, id := range s.Tips {
			tip = s.Live[id]
		}
		run = func() error { _, e := w.g.Server().GetVertex(ctx, w.signedHash(sh, w.peer, tip.Hash[:])); return e }
	case "webhooks.Webhooks":
		run = func() error {
			_, e := w.wh.Webhooks(ctx, w.signedHash(sh, newWallet(), []byte("http://localhost:9/hook")))
			return e
		}
	default:
		fatal("unknown rpc %s", c.Rpc)
	}
	return run
}

func (w *shapeWorld) call(run func() error) (outcome, detail string) {
	defer func() {
		if r := recover(); r != nil {
			outcome, detail = "panic", fmt.Sprint(r)
		}
	}()
	err := run()
	w.n.settle()
	if err != nil {
		return "error", err.Error()
	}
	return "ok", ""
}

// shapesMain: drive shapes <shapes.ndjson> <trace.ndjson>
func shapesMain(args []string) {
	if len(args) != 2 {
		fatal("usage: drive shapes <shapes.ndjson> <trace.ndjson>")
	}
	in, err := os.Open(args[0])
	if err != nil {
		fatal("%v", err)
	}
	outf, err := os.Create(args[1])
	if err != nil {
		fatal("%v", err)
	}
	bw := bufio.NewWriterSize(outf, 1<<20)
	enc := json.NewEncoder(bw)
	nw, err := newNWorld(json.NewEncoder(bytes.NewBuffer(nil)))
	if err != nil {
		fatal("world: %v", err)
	}
	w := &shapeWorld{n: nw, peer: newWallet()}
	w.g = gossip.VerifNew(nw.ab, wallet.NewVerifier(), nw.wl["NODE"], nopLogger{}, nw.hc, nw.fl, nw.jug, "url-self", time.Second)
	w.wh = webhooksserver.VerifNew(nopLogger{}, wallet.NewVerifier(), webhooks.New(nopLogger{}))
	// a ledger with some history and some awaiting contracts
	for i := 0; i < 6; i++ {
		t := w.freshTrx(false, 1)
		pt, _ := transformers.TrxToProtoTrx(t)
		_, _ = nw.srv.Propose(context.Background(), pt)
		c := w.freshTrx(true, 0)
		w.track(c.Hash)
		pc, _ := transformers.TrxToProtoTrx(c)
		_, _ = nw.srv.Propose(context.Background(), pc)
	}
	// the book's truncation loop is not running (see newNWorld): keep its signal channel drained, otherwise the
	// 51st admitted vertex blocks while holding the book lock
	go func() {
		for {
			nw.ab.VerifDrainTruncateSignal()
			time.Sleep(200 * time.Microsecond)
		}
	}()
	// drain the juggler so that its goroutines do not pile up
	go func() {
		for range nw.jug.SubscribeToTrx() {
		}
	}()
	go func() {
		for range nw.jug.SubscribeToVrx() {
		}
	}()
	sc := bufio.NewScanner(in)
	sc.Buffer(make([]byte, 1<<20), 1<<26)
	n := 0
	for sc.Scan() {
		line := bytes.TrimSpace(sc.Bytes())
		if len(line) == 0 {
			continue
		}
		var c shapeCase
		if err := json.Unmarshal(line, &c); err != nil {
			fatal("shape %d: %v", n, err)
		}
		run := w.prepare(c)
		w.n.settle()
		before := w.state()
		outcome, detail := w.call(run)
		after := w.state()
		if !unchangedBy(before, after) {
			detail += " | " + before.String() + " -> " + after.String()
			if os.Getenv("SHAPES_DEBUG") != "" {
				s2, _ := w.n.ab.VerifSnapshot()
				for k, v := range lastLive {
					if _, ok := s2.Live[k]; !ok {
						detail += fmt.Sprintf(" | dropped: subject=%q sealer=%s w=%d spice=%v data=%d rsig=%d; book weight=%d thr=%d",
							v.Transaction.Subject, v.SignerPublicAddress[:6], v.Weight, v.Transaction.Spice, len(v.Transaction.Data),
							len(v.Transaction.ReceiverSignature), s2.Weight, s2.Throughput)
					}
				}
			}
		}
		if os.Getenv("SHAPES_DEBUG") != "" {
			s3, _ := w.n.ab.VerifSnapshot()
			lastLive = s3.Live
		}
		_ = enc.Encode(map[string]any{"rpc": c.Rpc, "msg": c.Msg, "shape": c.Shape, "must": c.Must, "outcome": outcome,
			"unchanged": unchangedBy(before, after), "detail": detail})
		bw.Flush()
		n++
	}
	bw.Flush()
	outf.Close()
	fmt.Printf("{\"requests\":%d}\n", n)
	os.Exit(0)
}
