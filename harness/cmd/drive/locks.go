package main

// Lock driver (C08): runs real ledger operations with cancellation at every visit count, early exits
// of internal walks, truncation at every cut depth and DAG streaming against concurrent writers on
// real AccountingBooks whose background loops are running, and records for each scenario whether the
// operation returned, whether probes of every kind still complete afterwards and how many graph
// walker goroutines are left behind. The verdicts are made by TLC from WalkLocksTrace.tla.

import (
	"bufio"
	"bytes"
	"context"
	"encoding/json"
	"fmt"
	"math/rand"
	"os"
	"runtime/pprof"
	"strconv"
	"strings"
	"sync"
	"sync/atomic"
	"time"

	"github.com/bartossh/Computantis/src/accountant"
	"github.com/bartossh/Computantis/src/spice"
	"github.com/bartossh/Computantis/src/transaction"
	"github.com/bartossh/Computantis/src/wallet"
)

const wedgeAfter = 10 * time.Second

// countCtx is a context whose Done channel closes at the k-th inspection.
type countCtx struct {
	context.Context
	n    atomic.Int32
	k    int32
	ch   chan struct{}
	once sync.Once
}

func newCountCtx(k int) *countCtx {
	return &countCtx{Context: context.Background(), k: int32(k), ch: make(chan struct{})}
}

func (c *countCtx) Done() <-chan struct{} {
	if c.n.Add(1) >= c.k {
		c.once.Do(func() { close(c.ch) })
	}
	return c.ch
}

func (c *countCtx) Err() error {
	select {
	case <-c.ch:
		return context.Canceled
	default:
		return nil
	}
}

// gateLogger is the logger handed to the book in one scenario: it parks the truncation loop at its
// "Starting truncate" message, i.e. between taking a weight from the signal channel and taking the book lock
// (in production this is a synchronous write to the log sink).
type gateLogger struct {
	parked  chan struct{}
	release chan struct{}
	once    sync.Once
}

func (g *gateLogger) Debug(string) {}
func (g *gateLogger) Warn(string)  {}
func (g *gateLogger) Error(string) {}
func (g *gateLogger) Fatal(string) {}
func (g *gateLogger) Info(msg string) {
	if strings.HasPrefix(msg, "Starting truncate") {
		first := false
		g.once.Do(func() { first = true })
		if first {
			close(g.parked)
			<-g.release
		}
	}
}

type lockBook struct {
	ab     *accountant.AccountingBook
	cancel context.CancelFunc
	node   wallet.Wallet
	gr     wallet.Wallet
	a      wallet.Wallet
	b      wallet.Wallet
	n      int // vertices proposed so far
	seq    int
}

func newLockBook(chain int) (*lockBook, error) {
	lb := &lockBook{}
	var err error
	for _, w := range []*wallet.Wallet{&lb.node, &lb.gr, &lb.a, &lb.b} {
		if *w, err = wallet.New(); err != nil {
			return nil, err
		}
	}
	ctx, cancel := context.WithCancel(context.Background())
	lb.cancel = cancel
	lb.ab, err = accountant.NewAccountingBook(ctx, accountant.Config{}, wallet.NewVerifier(), &lb.node, nopLogger{})
	if err != nil {
		return nil, err
	}
	if _, err = lb.ab.CreateGenesis("GENESIS", spice.New(1_000_000, 0), []byte{}, lb.gr.Address()); err != nil {
		return nil, err
	}
	for i := 0; i < chain; i++ {
		if _, err := lb.propose(context.Background()); err != nil {
			return nil, err
		}
	}
	return lb, nil
}

func (lb *lockBook) newTrx() transaction.Transaction {
	lb.seq++
	t, _ := transaction.New("lock "+strconv.Itoa(lb.seq), spice.New(1, 0), nil, lb.a.Address(), &lb.gr)
	return t
}

func (lb *lockBook) propose(ctx context.Context) (accountant.Vertex, error) {
	t := lb.newTrx()
	v, err := lb.ab.CreateLeaf(ctx, &t)
	if err == nil {
		lb.n++
	}
	return v, err
}

func (lb *lockBook) close() {
	lb.cancel()
}

// within runs f and reports whether it returned before the wedge bound.
func within(f func()) (returned bool, panicked any) { return withinB(wedgeAfter, f) }

// withinB is within with a bound of its own (a scenario that is a long series of operations).
func withinB(wedgeAfter time.Duration, f func()) (returned bool, panicked any) {
	done := make(chan struct{})
	var pv any
	go func() {
		defer close(done)
		defer func() { pv = recover() }()
		f()
	}()
	select {
	case <-done:
		return true, pv
	case <-time.After(wedgeAfter):
	}
	// on a heavily overloaded machine slowness is not a wedge: keep waiting, up to six times the bound
	for waited := wedgeAfter; waited < 6*wedgeAfter && overloaded(); waited += 2 * time.Second {
		select {
		case <-done:
			return true, pv
		case <-time.After(2 * time.Second):
		}
	}
	select {
	case <-done:
		return true, pv
	default:
		return false, nil
	}
}

func walkerGoroutines() int {
	var buf bytes.Buffer
	_ = pprof.Lookup("goroutine").WriteTo(&buf, 2)
	return strings.Count(buf.String(), "dag.(*DAG).walkAncestors(")
}

// settledWalkers polls until no walker goroutine is left or the settle time has passed.
func settledWalkers() int {
	// a walker that was abandoned stays for ever, one that is winding down after its consumer has left is gone within
	// microseconds - on an idle machine; waiting longer costs nothing in precision
	deadline := time.Now().Add(5 * time.Second)
	if overloaded() {
		deadline = time.Now().Add(30 * time.Second)
	}
	for {
		n := walkerGoroutines()
		if n == 0 || time.Now().After(deadline) {
			return n
		}
		time.Sleep(5 * time.Millisecond)
	}
}

type lockRun struct {
	failed int           // scenarios that did not pass so far
	bound  time.Duration // bound of the next scenario as a whole, when it is a series of operations (0: the wedge bound)
	out    *json.Encoder
	lb     *lockBook
	chain  int
	base   int // walkers leaked by earlier (already reported) scenarios in abandoned books
	n      int
}

func (r *lockRun) fresh() {
	if r.lb != nil {
		r.lb.close()
	}
	lb, err := newLockBook(r.chain)
	if err != nil {
		fatal("lock book: %v", err)
	}
	r.lb = lb
}

// probes runs one operation of every kind to completion; a wedged node fails them.
func (r *lockRun) probes() map[string]bool {
	res := map[string]bool{}
	lb := r.lb
	ok, pv := within(func() { _, _ = lb.propose(context.Background()) })
	res["propose"] = ok && pv == nil
	if !res["propose"] {
		return res
	}
	ok, pv = within(func() { _, _ = lb.ab.CalculateBalance(context.Background(), lb.a.Address()) })
	res["balance"] = ok && pv == nil
	ok, pv = within(func() {
		for range lb.ab.StreamDAG(context.Background()) {
		}
	})
	res["stream"] = ok && pv == nil
	ok, pv = within(func() {
		v, err := accountant.NewVertex(lb.newTrx(), [32]byte{1}, [32]byte{2}, 3, &lb.b)
		if err == nil {
			_ = lb.ab.AddLeaf(context.Background(), &v)
		}
	})
	res["addleaf"] = ok && pv == nil
	return res
}

func (r *lockRun) scenario(kind string, k int, f func(lb *lockBook) string) {
	if r.failed >= 8 {
		// eight scenarios have already shown a wedged node / a leaked walker / a panic: every further one costs its
		// full time bound and adds nothing to the verdict
		return
	}
	r.n++
	lb := r.lb
	var res string
	bound := wedgeAfter
	if r.bound > 0 {
		bound = r.bound
	}
	returned, pv := withinB(bound, func() { res = f(lb) })
	if pv != nil {
		res = fmt.Sprintf("panic: %v", pv)
	}
	if strings.Contains(res, "did not return") {
		returned = false // an operation inside a series wedged
	}
	walkers := 0
	probes := map[string]bool{}
	if returned {
		walkers = settledWalkers() - r.base
		probes = r.probes()
	}
	allok := returned && pv == nil
	for _, v := range probes {
		allok = allok && v
	}
	_ = r.out.Encode(map[string]any{"a": "Scenario", "kind": kind, "k": k, "chain": lb.n, "returned": returned,
		"panicked": pv != nil, "res": res, "walkers": walkers, "probes": probes,
		"probesok": allok})
	if !allok || walkers != 0 {
		r.failed++
		// the book may be wedged for good: abandon it (its goroutines stay) and start a new one
		r.base = walkerGoroutines()
		r.fresh()
	}
}

func errClass(err error) string {
	if err == nil {
		return "ok"
	}
	return classify(err, nil)
}

// locksMain: drive locks <trace.ndjson> <seed> <tier>
func locksMain(args []string) {
	if len(args) != 3 {
		fatal("usage: drive locks <trace.ndjson> <seed> <quick|thorough>")
	}
	sd, _ := strconv.Atoi(args[1])
	rng := rand.New(rand.NewSource(int64(sd)))
	thorough := args[2] == "thorough"
	f, err := os.Create(args[0])
	if err != nil {
		fatal("%v", err)
	}
	bw := bufio.NewWriter(f)
	r := &lockRun{out: json.NewEncoder(bw), chain: 6}
	if thorough {
		r.chain = 14
	}
	r.fresh()
	chain := r.chain

	// A. cancellation after k inspected ancestors, for every read operation and every k
	for k := 0; k <= chain+3; k++ {
		k := k
		r.scenario("balance.cancel", k, func(lb *lockBook) string {
			_, err := lb.ab.CalculateBalance(newCountCtx(k), lb.a.Address())
			return errClass(err)
		})
		r.scenario("history.cancel", k, func(lb *lockBook) string {
			_, err := lb.ab.ReadDAGTransactionsByAddress(newCountCtx(k), lb.a.Address())
			return errClass(err)
		})
		r.scenario("propose.cancel", k, func(lb *lockBook) string {
			_, err := lb.propose(newCountCtx(k))
			return errClass(err)
		})
		r.scenario("addleaf.cancel", k, func(lb *lockBook) string {
			// a foreign vertex on the current tip: the tip is validated with the cancelling context
			tip, _ := lb.propose(context.Background())
			v, _ := accountant.NewVertex(lb.newTrx(), tip.Hash, tip.Hash, tip.Weight+1, &lb.b)
			return errClass(lb.ab.AddLeaf(newCountCtx(k), &v))
		})
	}
	// A2. a writer that arrives in the middle of a read walk: the k-th inspection of the context starts a
	// proposal in another goroutine and gives it time to reach its locks (no hook needed: the walks inspect
	// the context once per visited ancestor)
	for _, k := range []int{1, 2, chain / 2, chain} {
		for _, kind := range []string{"balance", "history"} {
			k, kind := k, kind
			r.scenario(kind+".writer-midwalk", k, func(lb *lockBook) string {
				var wg sync.WaitGroup
				ctx := &hookCtx{Context: context.Background(), at: k, fire: func() {
					for j := 0; j < 2; j++ {
						wg.Add(1)
						go func() {
							defer wg.Done()
							t := lb.newTrx()
							_, _ = lb.ab.CreateLeaf(context.Background(), &t)
						}()
					}
					time.Sleep(3 * time.Millisecond)
				}}
				var err error
				if kind == "balance" {
					_, err = lb.ab.CalculateBalance(ctx, lb.a.Address())
				} else {
					_, err = lb.ab.ReadDAGTransactionsByAddress(ctx, lb.a.Address())
				}
				wg.Wait()
				return errClass(err)
			})
		}
	}
	// B. truncation with the cut found after d ancestors (early exit of the first walk), with and
	// without cancellation inside the three walks
	for d := 1; d <= chain+2; d++ {
		d := d
		accountant.VerifTruncateDepth = uint64(d)
		r.fresh()
		r.scenario("truncate.depth", d, func(lb *lockBook) string {
			return errClass(lb.ab.VerifTruncate(context.Background()))
		})
		for _, k := range []int{1, d, d + 1, d + 2, 2 * d, 2*d + 3} {
			k := k
			r.fresh()
			r.scenario("truncate.cancel", d*100+k, func(lb *lockBook) string {
				return errClass(lb.ab.VerifTruncate(newCountCtx(k)))
			})
		}
	}
	accountant.VerifTruncateDepth = 0
	// B2. a gossiped vertex that claims a huge weight triggers the truncation loop on a graph that is far shallower
	// than the truncation depth; the loop must survive that, and the next hundred admissions must not block on
	// the loop's signal channel (capacity 50, written while the book lock is held)
	for _, claimed := range []uint64{150_000, 1_000_000} {
		claimed := claimed
		r.fresh()
		r.scenario("truncate.weighttrigger", int(claimed/1000), func(lb *lockBook) string {
			tip, _ := lb.propose(context.Background())
			v, _ := accountant.NewVertex(lb.newTrx(), tip.Hash, tip.Hash, claimed, &lb.b)
			if err := lb.ab.AddLeaf(context.Background(), &v); err != nil {
				return "addleaf:" + errClass(err)
			}
			time.Sleep(100 * time.Millisecond)
			for i := 0; i < 110; i++ {
				if _, err := lb.propose(context.Background()); err != nil {
					return "propose:" + errClass(err)
				}
			}
			return "ok"
		})
	}
	// B3. the real trigger at the real depth: more than 3000 proposals with the truncation loop running
	// (truncate_at_weight 2000, depth 1000); afterwards vertices have been moved to storage and the node answers
	if thorough {
		accountant.VerifTruncateDepth = 0
		if r.lb != nil {
			r.lb.close()
		}
		lb := &lockBook{}
		for _, w := range []*wallet.Wallet{&lb.node, &lb.gr, &lb.a, &lb.b} {
			*w, _ = wallet.New()
		}
		ctx, cancel := context.WithCancel(context.Background())
		lb.cancel = cancel
		lb.ab, _ = accountant.NewAccountingBook(ctx, accountant.Config{Truncate: 2000}, wallet.NewVerifier(), &lb.node, nopLogger{})
		_, _ = lb.ab.CreateGenesis("GENESIS", spice.New(1_000_000, 0), []byte{}, lb.gr.Address())
		r.lb = lb
		// 3200 proposals, each of which has to return within the wedge bound; the series as a whole may take minutes
		r.bound = 20 * time.Minute
		r.scenario("truncate.realtrigger", 3200, func(lb *lockBook) string {
			for i := 0; i < 3200; i++ {
				var err error
				if ok, pv := within(func() { _, err = lb.propose(context.Background()) }); !ok || pv != nil {
					return fmt.Sprintf("proposal %d did not return (panic: %v)", i, pv)
				}
				if err != nil {
					return "propose:" + errClass(err)
				}
			}
			deadline := time.Now().Add(8 * time.Second)
			for time.Now().Before(deadline) {
				if s, err := lb.ab.VerifSnapshot(); err == nil && len(s.Stored) > 0 {
					b, err := lb.ab.CalculateBalance(context.Background(), lb.a.Address())
					if err != nil || b.Spice.Currency != 3200 {
						return fmt.Sprintf("balance after truncation: %v %v", b.Spice, err)
					}
					return fmt.Sprintf("ok:stored=%d live=%d", len(s.Stored), len(s.Live))
				}
				time.Sleep(50 * time.Millisecond)
			}
			return "no truncation happened"
		})
		r.bound = 0
	}
	// B4. the truncation loop is slow to start (its log write takes a while) after it took a triggering weight from
	// the signal channel; meanwhile more leaves are admitted than the channel holds. Nobody may end up blocked on the
	// channel while holding the book lock - the loop needs that lock to go on.
	{
		if r.lb != nil {
			r.lb.close()
		}
		gl := &gateLogger{parked: make(chan struct{}), release: make(chan struct{})}
		lb := &lockBook{}
		for _, w := range []*wallet.Wallet{&lb.node, &lb.gr, &lb.a, &lb.b} {
			*w, _ = wallet.New()
		}
		ctx, cancel := context.WithCancel(context.Background())
		lb.cancel = cancel
		lb.ab, _ = accountant.NewAccountingBook(ctx, accountant.Config{Truncate: 2000}, wallet.NewVerifier(), &lb.node, gl)
		_, _ = lb.ab.CreateGenesis("GENESIS", spice.New(1_000_000, 0), []byte{}, lb.gr.Address())
		r.lb = lb
		r.scenario("truncate.signalfull", 60, func(lb *lockBook) string {
			tip, _ := lb.propose(context.Background())
			v, _ := accountant.NewVertex(lb.newTrx(), tip.Hash, tip.Hash, 500_000, &lb.b)
			if err := lb.ab.AddLeaf(context.Background(), &v); err != nil {
				return "addleaf:" + errClass(err)
			}
			select {
			case <-gl.parked:
			case <-time.After(3 * time.Second):
				close(gl.release)
				return "the truncation loop did not start"
			}
			done := make(chan struct{})
			go func() {
				defer close(done)
				for i := 0; i < 60; i++ {
					_, _ = lb.propose(context.Background())
				}
			}()
			time.Sleep(50 * time.Millisecond)
			close(gl.release)
			<-done
			return "ok"
		})
	}
	// B5. look-ups that miss (unknown hash, unknown address: DAG first, storage second) and look-ups that hit, before and
	// after a truncation has moved vertices to storage; every error path has to give its locks back
	r.fresh()
	for round := 0; round < 2; round++ {
		round := round
		r.scenario("lookup.miss", round, func(lb *lockBook) string {
			ctx := context.Background()
			var unknown [32]byte
			unknown[0], unknown[31] = 7, byte(round+1)
			_, e1 := lb.ab.ReadVertex(ctx, unknown)
			_, e2 := lb.ab.ReadTransactionByHash(ctx, unknown)
			_, e3 := lb.ab.ReadDAGTransactionsByAddress(ctx, "no-such-address")
			_, e4 := lb.ab.CalculateBalance(ctx, "no-such-address")
			tip, _ := lb.propose(ctx)
			_, e5 := lb.ab.ReadVertex(ctx, tip.Hash)
			_, e6 := lb.ab.ReadTransactionByHash(ctx, tip.Transaction.Hash)
			if round == 0 {
				_ = lb.ab.VerifTruncate(ctx)
			}
			return fmt.Sprintf("%v|%v|%v|%v|%v|%v", e1 != nil, e2 != nil, e3 != nil, e4 != nil, e5 != nil, e6 != nil)
		})
	}
	// C. validation error inside a walk: a tip whose funds do not suffice is dropped by the next proposal
	r.fresh()
	r.scenario("propose.invalidtip", 0, func(lb *lockBook) string {
		t, _ := transaction.New("overdraft", spice.New(5_000_000, 0), nil, lb.b.Address(), &lb.a)
		_, _ = lb.ab.CreateLeaf(context.Background(), &t)
		_, err := lb.propose(context.Background())
		return errClass(err)
	})
	// C2. no valid tip at all: an overdraft vertex that claims a weight far above the window is admitted, moves the
	// window and is dropped by the next proposal; every remaining tip is then below the window and proposal after
	// proposal drops the ledger tip by tip. Each proposal has to return (an error), also the ones on the empty graph.
	for _, claimed := range []uint64{500, 1900} {
		claimed := claimed
		r.fresh()
		r.scenario("propose.notip", int(claimed), func(lb *lockBook) string {
			tip, _ := lb.propose(context.Background())
			t, _ := transaction.New("overdraft", spice.New(5_000_000, 0), nil, lb.b.Address(), &lb.a)
			v, _ := accountant.NewVertex(t, tip.Hash, tip.Hash, claimed, &lb.b)
			if err := lb.ab.AddLeaf(context.Background(), &v); err != nil {
				return "addleaf:" + errClass(err)
			}
			last := "none"
			for i := 0; i < lb.n+8; i++ {
				_, err := lb.propose(context.Background())
				last = errClass(err)
			}
			return "last:" + last
		})
		// the probes of that scenario ran on the emptied ledger; start the next one on a new book
	}
	r.fresh()
	// D. DAG streaming to a slow consumer while writers keep proposing
	rounds := 12
	if thorough {
		rounds = 60
	}
	for i := 0; i < rounds; i++ {
		pause := rng.Intn(chain + 1)
		writers := 1 + rng.Intn(4)
		r.scenario("stream.writers", pause*10+writers, func(lb *lockBook) string {
			ctx, cancel := context.WithCancel(context.Background())
			defer cancel()
			ch := lb.ab.StreamDAG(ctx)
			got := 0
			for got < pause {
				if _, ok := <-ch; !ok {
					break
				}
				got++
			}
			var wg sync.WaitGroup
			for w := 0; w < writers; w++ {
				wg.Add(1)
				go func() {
					defer wg.Done()
					for j := 0; j < 5; j++ {
						t := lb.newTrx()
						_, _ = lb.ab.CreateLeaf(context.Background(), &t)
					}
				}()
			}
			time.Sleep(time.Duration(rng.Intn(3)) * time.Millisecond)
			for range ch {
				got++
			}
			wg.Wait()
			return "ok:" + strconv.Itoa(got)
		})
	}
	// E. a stream consumer that goes away (cancels) after j vertices
	for j := 0; j <= chain; j += 2 {
		j := j
		r.scenario("stream.abandon", j, func(lb *lockBook) string {
			ctx, cancel := context.WithCancel(context.Background())
			ch := lb.ab.StreamDAG(ctx)
			for i := 0; i < j; i++ {
				<-ch
			}
			cancel()
			time.Sleep(20 * time.Millisecond)
			return "ok"
		})
	}
	// F. seeded mixes of everything at once
	mixes := 6
	if thorough {
		mixes = 40
	}
	for i := 0; i < mixes; i++ {
		r.scenario("mix", i, func(lb *lockBook) string {
			var wg sync.WaitGroup
			for g := 0; g < 6; g++ {
				wg.Add(1)
				kind, k := rng.Intn(4), rng.Intn(chain+2)
				go func() {
					defer wg.Done()
					switch kind {
					case 0:
						_, _ = lb.ab.CalculateBalance(newCountCtx(k), lb.a.Address())
					case 1:
						t := lb.newTrx()
						_, _ = lb.ab.CreateLeaf(context.Background(), &t)
					case 2:
						for range lb.ab.StreamDAG(context.Background()) {
						}
					case 3:
						_, _ = lb.ab.ReadDAGTransactionsByAddress(newCountCtx(k), lb.a.Address())
					}
				}()
			}
			wg.Wait()
			return "ok"
		})
	}
	bw.Flush()
	f.Close()
	fmt.Printf("{\"scenarios\":%d}\n", r.n)
	os.Exit(0) // abandoned books may hold goroutines that never end
}
