package main

// Membership driver: REAL gossipers (hook VerifNew) behind REAL gRPC servers on loopback ports run the discovery
// protocol (hook Bootstrap = updateNodesConnectionsFromGensisNode, handlers Discover / Announce). After every step
// the peer tables of all nodes are recorded (hook PeerTable); MembershipTrace.tla judges each recorded step.

import (
	"bufio"
	"bytes"
	"context"
	"encoding/binary"
	"encoding/json"
	"fmt"
	"net"
	"os"
	"sort"
	"time"

	"github.com/bartossh/Computantis/src/gossip"
	pb "github.com/bartossh/Computantis/src/protobufcompiled"
	"github.com/bartossh/Computantis/src/wallet"
	"google.golang.org/grpc"
	"google.golang.org/grpc/credentials/insecure"
)

type mOp struct {
	Op   string `json:"op"`             // join | down | up | announce | discover
	N    string `json:"n,omitempty"`    // node acted upon (joiner / node going down / target of an adversary request)
	Addr string `json:"addr,omitempty"` // adversary request: the address the record names
	Url  string `json:"url,omitempty"`  // ... the node whose URL the record names
	By   string `json:"by,omitempty"`   // ... whose key signs it
}

type mBehaviour struct {
	ID      string   `json:"id"`
	Nodes   []string `json:"nodes"`
	Genesis string   `json:"genesis"`
	Ops     []mOp    `json:"ops"`
}

type mNode struct {
	name string
	w    *wallet.Wallet
	g    *gossip.VerifGossiper
	url  string
	lis  net.Listener
	srv  *grpc.Server
}

type mWorld struct {
	nodes map[string]*mNode
	adv   *wallet.Wallet
	byURL map[string]string
	byAdr map[string]string
	enc   *json.Encoder
}

func (w *mWorld) serve(n *mNode) error {
	lis, err := net.Listen("tcp", n.url)
	if err != nil {
		return err
	}
	n.lis = lis
	n.srv = grpc.NewServer()
	pb.RegisterGossipAPIServer(n.srv, n.g.Server())
	go func(s *grpc.Server, l net.Listener) { _ = s.Serve(l) }(n.srv, lis)
	return nil
}

func newMWorld(b *mBehaviour, enc *json.Encoder) (*mWorld, error) {
	w := &mWorld{nodes: map[string]*mNode{}, adv: newWallet(), byURL: map[string]string{}, byAdr: map[string]string{}, enc: enc}
	w.byAdr[w.adv.Address()] = "adv"
	for _, name := range b.Nodes {
		lis, err := net.Listen("tcp", "127.0.0.1:0")
		if err != nil {
			return nil, err
		}
		url := lis.Addr().String()
		_ = lis.Close()
		n := &mNode{name: name, w: newWallet(), url: url}
		n.g = gossip.VerifNew(nil, wallet.NewVerifier(), n.w, nopLogger{}, nil, nil, nil, url, time.Second)
		n.g.SetClientOptions(grpc.WithTransportCredentials(insecure.NewCredentials()))
		if err := w.serve(n); err != nil {
			return nil, err
		}
		w.nodes[name] = n
		w.byURL[url] = name
		w.byAdr[n.w.Address()] = name
	}
	return w, nil
}

func (w *mWorld) close() {
	for _, n := range w.nodes {
		if n.srv != nil {
			n.srv.Stop()
		}
		n.g.CloseConnections()
	}
}

// tables: node -> address name -> name of the node that listens on the recorded URL
func (w *mWorld) tables() map[string]map[string]string {
	out := map[string]map[string]string{}
	for name, n := range w.nodes {
		t := map[string]string{}
		for addr, url := range n.g.PeerTable() {
			a, ok := w.byAdr[addr]
			if !ok {
				a = "unknown:" + addr
			}
			u, ok := w.byURL[url]
			if !ok {
				u = "unknown:" + url
			}
			t[a] = u
		}
		out[name] = t
	}
	return out
}

func (w *mWorld) record(signer *wallet.Wallet, addr, url string) *pb.ConnectionData {
	now := uint64(time.Now().UnixNano())
	ts := make([]byte, 0, 8)
	ts = binary.LittleEndian.AppendUint64(ts, now)
	data := bytes.Join([][]byte{[]byte(addr), []byte(url), ts}, []byte{})
	digest, sig := signer.Sign(data)
	return &pb.ConnectionData{PublicAddress: addr, Url: url, CreatedAt: now, Digest: digest[:], Signature: sig}
}

func (w *mWorld) walletOf(name string) *wallet.Wallet {
	if name == "adv" {
		return w.adv
	}
	if n := w.nodes[name]; n != nil {
		return n.w
	}
	return nil
}

func (w *mWorld) run(b *mBehaviour) {
	_ = w.enc.Encode(map[string]any{"a": "Reset", "id": b.ID, "nodes": b.Nodes, "genesis": b.Genesis})
	up := map[string]bool{}
	for _, n := range b.Nodes {
		up[n] = true
	}
	ups := func() []string {
		var s []string
		for n, ok := range up {
			if ok {
				s = append(s, n)
			}
		}
		sort.Strings(s)
		return s
	}
	for _, op := range b.Ops {
		n := w.nodes[op.N]
		if n == nil {
			continue
		}
		switch op.Op {
		case "join":
			ctx, cancel := context.WithTimeout(context.Background(), 10*time.Second)
			err := n.g.Bootstrap(ctx, w.nodes[b.Genesis].url)
			cancel()
			res := "ok"
			if err != nil {
				res = "error"
			}
			_ = w.enc.Encode(map[string]any{"a": "Join", "n": op.N, "res": res, "up": ups(), "tables": w.tables()})
		case "down":
			if up[op.N] {
				n.srv.Stop()
				up[op.N] = false
			}
			_ = w.enc.Encode(map[string]any{"a": "Down", "n": op.N, "up": ups(), "tables": w.tables()})
		case "up":
			if !up[op.N] {
				var err error
				for i := 0; i < 50; i++ {
					if err = w.serve(n); err == nil {
						break
					}
					time.Sleep(20 * time.Millisecond)
				}
				if err != nil {
					fatal("restart %s: %v", op.N, err)
				}
				up[op.N] = true
			}
			_ = w.enc.Encode(map[string]any{"a": "Up", "n": op.N, "up": ups(), "tables": w.tables()})
		case "announce", "discover":
			// the adversary (or a replay) talks to node op.N over the real transport
			signer, urlNode := w.walletOf(op.By), w.nodes[op.Url]
			addr := ""
			if aw := w.walletOf(op.Addr); aw != nil {
				addr = aw.Address()
			}
			if signer == nil || urlNode == nil || addr == "" {
				continue
			}
			cd := w.record(signer, addr, urlNode.url)
			res := "error"
			if up[op.N] {
				conn, err := grpc.Dial(n.url, grpc.WithTransportCredentials(insecure.NewCredentials()))
				if err == nil {
					ctx, cancel := context.WithTimeout(context.Background(), 5*time.Second)
					cl := pb.NewGossipAPIClient(conn)
					if op.Op == "announce" {
						_, err = cl.Announce(ctx, cd)
					} else {
						_, err = cl.Discover(ctx, cd)
					}
					cancel()
					_ = conn.Close()
					if err == nil {
						res = "ok"
					}
				}
			}
			_ = w.enc.Encode(map[string]any{"a": "Adv", "kind": op.Op, "n": op.N, "addr": op.Addr, "url": op.Url, "by": op.By, "res": res,
				"up": ups(), "tables": w.tables()})
		}
	}
}

// memberMain: drive member <behaviours.ndjson> <trace.ndjson>
func memberMain(args []string) {
	if len(args) != 2 {
		fatal("usage: drive member <behaviours.ndjson> <trace.ndjson>")
	}
	in, err := os.Open(args[0])
	if err != nil {
		fatal("%v", err)
	}
	outf, err := os.Create(args[1])
	if err != nil {
		fatal("%v", err)
	}
	bw := bufio.NewWriterSize(outf, 1<<20)
	enc := json.NewEncoder(bw)
	sc := bufio.NewScanner(in)
	sc.Buffer(make([]byte, 1<<20), 1<<26)
	nb := 0
	for sc.Scan() {
		line := bytes.TrimSpace(sc.Bytes())
		if len(line) == 0 {
			continue
		}
		var b mBehaviour
		if err := json.Unmarshal(line, &b); err != nil {
			fatal("behaviour %d: %v", nb, err)
		}
		w, err := newMWorld(&b, enc)
		if err != nil {
			fatal("world: %v", err)
		}
		w.run(&b)
		w.close()
		bw.Flush()
		nb++
	}
	bw.Flush()
	outf.Close()
	fmt.Printf("{\"behaviours\":%d}\n", nb)
}

// memberStressMain: drive member-stress <seconds>
// One real gossip server; valid Discover and Announce requests from many keys at the same time, over the real
// transport. Nothing a client sends may take the process down: the runner reads this process's fate.
func memberStressMain(args []string) {
	secs := 2
	if len(args) > 0 {
		fmt.Sscanf(args[0], "%d", &secs)
	}
	b := &mBehaviour{ID: "stress", Nodes: []string{"g"}, Genesis: "g"}
	w, err := newMWorld(b, json.NewEncoder(os.Stderr))
	if err != nil {
		fatal("world: %v", err)
	}
	g := w.nodes["g"]
	deadline := time.Now().Add(time.Duration(secs) * time.Second)
	done := make(chan [2]int, 8)
	for i := 0; i < 8; i++ {
		go func(i int) {
			n := [2]int{}
			conn, err := grpc.Dial(g.url, grpc.WithTransportCredentials(insecure.NewCredentials()))
			if err != nil {
				done <- n
				return
			}
			defer conn.Close()
			cl := pb.NewGossipAPIClient(conn)
			keys := []*wallet.Wallet{newWallet(), newWallet(), newWallet()}
			for k := 0; time.Now().Before(deadline); k++ {
				wl := keys[k%len(keys)]
				cd := w.record(wl, wl.Address(), fmt.Sprintf("127.0.0.1:%d", 20000+i*100+k%50))
				ctx, cancel := context.WithTimeout(context.Background(), 2*time.Second)
				if (k+i)%2 == 0 {
					if _, err := cl.Discover(ctx, cd); err == nil {
						n[0]++
					}
				} else {
					if _, err := cl.Announce(ctx, cd); err == nil {
						n[1]++
					}
				}
				cancel()
			}
			done <- n
		}(i)
	}
	tot := [2]int{}
	for i := 0; i < 8; i++ {
		n := <-done
		tot[0] += n[0]
		tot[1] += n[1]
	}
	fmt.Printf("{\"discover\":%d,\"announce\":%d,\"peers\":%d}\n", tot[0], tot[1], len(g.g.PeerTable()))
	os.Exit(0)
}
