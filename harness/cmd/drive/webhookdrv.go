package main

// Webhook driver: the REAL webhooks.Service behind the REAL webhooksserver handler (hook VerifNew), real HTTP
// endpoints on loopback ports. Every step of a behaviour is one call; after it the driver sends one probe
// notification per address and records at which endpoint it arrived (the subscription table has no getter).
// WebhooksTrace.tla judges each recorded step.

import (
	"bufio"
	"bytes"
	"context"
	"crypto/sha256"
	"encoding/json"
	"fmt"
	"io"
	"net"
	"net/http"
	"os"
	"sync"
	"time"

	pb "github.com/bartossh/Computantis/src/protobufcompiled"
	"github.com/bartossh/Computantis/src/wallet"
	"github.com/bartossh/Computantis/src/webhooks"
	"github.com/bartossh/Computantis/src/webhooksserver"
)

type whOp struct {
	Op    string   `json:"op"` // sub | remove | notify | down | up
	W     string   `json:"w,omitempty"`
	U     string   `json:"u,omitempty"`
	By    string   `json:"by,omitempty"`
	Shape string   `json:"shape,omitempty"`
	Ws    []string `json:"ws,omitempty"`
}

type whBehaviour struct {
	ID      string   `json:"id"`
	Wallets []string `json:"wallets"`
	Urls    []string `json:"urls"`
	Ops     []whOp   `json:"ops"`
}

type whEndpoint struct {
	name string
	addr string
	srv  *http.Server
	mu   sync.Mutex
	hits int
	bad  int
	down bool
}

func (e *whEndpoint) setDown(v bool) {
	e.mu.Lock()
	e.down = v
	e.mu.Unlock()
}

const whNodeURL = "notary-node-url:8000"

func (e *whEndpoint) handler() http.Handler {
	return http.HandlerFunc(func(rw http.ResponseWriter, r *http.Request) {
		e.mu.Lock()
		down := e.down
		e.mu.Unlock()
		if down {
			// an endpoint that is down: the connection is dropped without an answer and nothing is received. (The
			// listener stays, so that coming back does not depend on getting the same port again.)
			if hj, ok := rw.(http.Hijacker); ok {
				if c, _, err := hj.Hijack(); err == nil {
					_ = c.Close()
				}
			}
			return
		}
		body, _ := io.ReadAll(r.Body)
		var m struct {
			Time  time.Time `json:"time"`
			Node  string    `json:"notary_node_url"`
			State byte      `json:"state"`
		}
		ok := r.Method == "POST" && json.Unmarshal(body, &m) == nil && m.Node == whNodeURL && m.State == webhooks.StateIssued &&
			r.URL.Path == "/hook/"+e.name
		e.mu.Lock()
		e.hits++
		if !ok {
			e.bad++
		}
		e.mu.Unlock()
		rw.Header().Set("Content-Type", "application/json")
		rw.Header().Set("Connection", "close")
		_, _ = rw.Write([]byte("{}"))
	})
}

func (e *whEndpoint) start() error {
	var lis net.Listener
	var err error
	for i := 0; i < 50; i++ {
		lis, err = net.Listen("tcp", e.addr)
		if err == nil {
			break
		}
		time.Sleep(20 * time.Millisecond)
	}
	if err != nil {
		return err
	}
	e.addr = lis.Addr().String()
	e.srv = &http.Server{Handler: e.handler()}
	go func(s *http.Server, l net.Listener) { _ = s.Serve(l) }(e.srv, lis)
	return nil
}

func (e *whEndpoint) stop() {
	if e.srv != nil {
		_ = e.srv.Close()
		e.srv = nil
	}
}

func (e *whEndpoint) take() (int, int) {
	e.mu.Lock()
	defer e.mu.Unlock()
	h, b := e.hits, e.bad
	e.hits, e.bad = 0, 0
	return h, b
}

type whWorld struct {
	svc  *webhooks.Service
	api  pb.WebhooksAPIServer
	wl   map[string]*wallet.Wallet
	ep   map[string]*whEndpoint
	urls []string
	ws   []string
	sent map[string]*pb.SignedHash // accepted requests as sent, by wallet|url (replayed byte for byte later)
}

func newWhWorld(b *whBehaviour) (*whWorld, error) {
	w := &whWorld{svc: webhooks.New(nopLogger{}), wl: map[string]*wallet.Wallet{}, ep: map[string]*whEndpoint{}, urls: b.Urls, ws: b.Wallets}
	w.api = webhooksserver.VerifNew(nopLogger{}, wallet.NewVerifier(), w.svc)
	for _, n := range b.Wallets {
		w.wl[n] = newWallet()
	}
	for _, u := range b.Urls {
		e := &whEndpoint{name: u, addr: "127.0.0.1:0"}
		if err := e.start(); err != nil {
			return nil, err
		}
		w.ep[u] = e
	}
	return w, nil
}

func (w *whWorld) close() {
	for _, e := range w.ep {
		e.stop()
	}
}

func (w *whWorld) url(u string) string { return "http://" + w.ep[u].addr + "/hook/" + u }

func (w *whWorld) drain() (map[string]int, int) {
	hits, bad := map[string]int{}, 0
	for _, u := range w.urls {
		h, b := w.ep[u].take()
		hits[u] = h
		bad += b
	}
	return hits, bad
}

// seen: one probe notification per address; where did it arrive
func (w *whWorld) seen() map[string]string {
	out := map[string]string{}
	for _, n := range w.ws {
		w.drain()
		w.svc.PostWebhookNewTransaction([]string{w.wl[n].Address()}, whNodeURL)
		hits, bad := w.drain()
		at, total := "none", 0
		for u, h := range hits {
			total += h
			if h > 0 {
				at = u
			}
		}
		if total > 1 || bad > 0 {
			at = fmt.Sprintf("multi(%v,bad=%d)", hits, bad)
		}
		out[n] = at
	}
	return out
}

func (w *whWorld) request(op whOp) *pb.SignedHash {
	if op.Shape == "nil" {
		return nil
	}
	data := []byte(w.url(op.U))
	if op.Shape == "badurl" {
		data = []byte("://" + op.U + " \x7f")
	}
	signer := w.wl[op.By]
	d, s := signer.Sign(data)
	r := &pb.SignedHash{Address: w.wl[op.W].Address(), Data: data, Hash: d[:], Signature: s}
	switch op.Shape {
	case "badhash":
		o := sha256.Sum256(append([]byte("x"), data...))
		r.Hash = o[:]
	case "shorthash":
		r.Hash = d[:31]
	case "badsig":
		sig := append([]byte{}, s...)
		sig[len(sig)/2] ^= 0x10
		r.Signature = sig
	}
	return r
}

func (w *whWorld) step(op whOp, enc *json.Encoder) error {
	ev := map[string]any{}
	switch op.Op {
	case "sub":
		req := w.request(op)
		res, panicked := "ok", ""
		func() {
			defer func() {
				if r := recover(); r != nil {
					panicked = fmt.Sprint(r)
				}
			}()
			if _, err := w.api.Webhooks(context.Background(), req); err != nil {
				res = "error"
			}
		}()
		if panicked != "" {
			res = "panic: " + panicked
		}
		if res == "ok" && req != nil {
			if w.sent == nil {
				w.sent = map[string]*pb.SignedHash{}
			}
			w.sent[op.W+"|"+op.U] = req
		}
		ev = map[string]any{"a": "Sub", "w": op.W, "u": op.U, "by": op.By, "shape": op.Shape, "res": res}
	case "replay":
		req := w.sent[op.W+"|"+op.U]
		if req == nil {
			return nil // nothing of that kind was ever sent: nothing to replay
		}
		res := "ok"
		if _, err := w.api.Webhooks(context.Background(), req); err != nil {
			res = "error"
		}
		ev = map[string]any{"a": "Replay", "w": op.W, "u": op.U, "res": res}
	case "remove":
		_ = w.svc.RemoveWebhook(webhooks.TriggerNewTransaction, w.wl[op.W].Address(), webhooks.Hook{})
		ev = map[string]any{"a": "Remove", "w": op.W}
	case "notify":
		addrs := []string{}
		for _, n := range op.Ws {
			addrs = append(addrs, w.wl[n].Address())
		}
		w.drain()
		w.svc.PostWebhookNewTransaction(addrs, whNodeURL)
		hits, bad := w.drain()
		ev = map[string]any{"a": "Notify", "ws": op.Ws, "hits": hits, "wellformed": bad == 0}
	case "down":
		w.ep[op.U].setDown(true)
		ev = map[string]any{"a": "Down", "u": op.U}
	case "up":
		w.ep[op.U].setDown(false)
		ev = map[string]any{"a": "Up", "u": op.U}
	default:
		return fmt.Errorf("unknown op %q", op.Op)
	}
	ev["seen"] = w.seen()
	return enc.Encode(ev)
}

// webhookStressMain: drive webhook-stress <seconds>. Valid subscriptions from many keys and notifications for all of
// them overlap on one real service behind the real handler; the process must survive (an unsynchronised table dies with
// "fatal error: concurrent map ..."), and afterwards every address must be notified at the endpoint it subscribed last.
func webhookStressMain(args []string) {
	secs := 2
	if len(args) > 0 {
		fmt.Sscanf(args[0], "%d", &secs)
	}
	b := &whBehaviour{Wallets: []string{}, Urls: []string{"u1", "u2"}}
	for i := 0; i < 16; i++ {
		b.Wallets = append(b.Wallets, fmt.Sprintf("w%d", i))
	}
	w, err := newWhWorld(b)
	if err != nil {
		fatal("world: %v", err)
	}
	stop := make(chan struct{})
	var wg sync.WaitGroup
	var mu sync.Mutex
	subs, posts, refused := 0, 0, 0
	lastURL := map[string]string{}
	for i, n := range b.Wallets {
		wg.Add(1)
		go func(i int, n string) {
			defer wg.Done()
			k := 0
			for {
				select {
				case <-stop:
					return
				default:
				}
				u := b.Urls[(i+k)%2]
				_, err := w.api.Webhooks(context.Background(), w.request(whOp{W: n, U: u, By: n, Shape: "ok"}))
				mu.Lock()
				if err != nil {
					refused++
				} else {
					subs++
					lastURL[n] = u
				}
				mu.Unlock()
				k++
			}
		}(i, n)
	}
	addrs := []string{}
	for _, n := range b.Wallets {
		addrs = append(addrs, w.wl[n].Address())
	}
	for i := 0; i < 4; i++ {
		wg.Add(1)
		go func() {
			defer wg.Done()
			for {
				select {
				case <-stop:
					return
				default:
				}
				w.svc.PostWebhookNewTransaction(addrs, whNodeURL)
				mu.Lock()
				posts++
				mu.Unlock()
			}
		}()
	}
	time.Sleep(time.Duration(secs) * time.Second)
	close(stop)
	wg.Wait()
	seen := w.seen()
	wrong := 0
	for _, n := range b.Wallets {
		if seen[n] != lastURL[n] {
			wrong++
		}
	}
	w.close()
	fmt.Printf("{\"subscriptions\":%d,\"refused\":%d,\"notifications\":%d,\"wrong_endpoint\":%d}\n", subs, refused, posts, wrong)
	if refused > 0 || wrong > 0 {
		os.Exit(3)
	}
	os.Exit(0)
}

// webhookMain: drive webhook <behaviours.ndjson> <trace.ndjson>
func webhookMain(args []string) {
	if len(args) != 2 {
		fatal("usage: drive webhook <behaviours.ndjson> <trace.ndjson>")
	}
	in, err := os.Open(args[0])
	if err != nil {
		fatal("%v", err)
	}
	outf, err := os.Create(args[1])
	if err != nil {
		fatal("%v", err)
	}
	bw := bufio.NewWriterSize(outf, 1<<20)
	enc := json.NewEncoder(bw)
	sc := bufio.NewScanner(in)
	sc.Buffer(make([]byte, 1<<20), 1<<26)
	n := 0
	for sc.Scan() {
		line := bytes.TrimSpace(sc.Bytes())
		if len(line) == 0 {
			continue
		}
		var b whBehaviour
		if err := json.Unmarshal(line, &b); err != nil {
			fatal("behaviour %d: %v", n, err)
		}
		w, err := newWhWorld(&b)
		if err != nil {
			fatal("world: %v", err)
		}
		_ = enc.Encode(map[string]any{"a": "Reset", "id": b.ID, "wallets": b.Wallets, "urls": b.Urls})
		for _, op := range b.Ops {
			if err := w.step(op, enc); err != nil {
				fatal("behaviour %s: %v", b.ID, err)
			}
		}
		w.close()
		n++
	}
	bw.Flush()
	outf.Close()
	fmt.Printf("{\"behaviours\":%d}\n", n)
	os.Exit(0)
}
