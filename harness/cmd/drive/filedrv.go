package main

// Wallet file driver (C20): saves real wallets with the real fileoperations / aeswrapper code and reads
// them back from files truncated at every length, with every single byte changed, with wrong keys and
// keys of every length class, and through the PEM path; outcomes are judged by WalletFileTrace.tla.

import (
	"bufio"
	"bytes"
	"crypto/rand"
	"encoding/hex"
	"encoding/json"
	"fmt"
	mrand "math/rand"
	"os"
	"path/filepath"
	"strconv"
	"sync"

	"github.com/bartossh/Computantis/src/aeswrapper"
	"github.com/bartossh/Computantis/src/fileoperations"
	"github.com/bartossh/Computantis/src/wallet"
)

func readOutcome(h fileoperations.Helper, orig *wallet.Wallet) (out string) {
	defer func() {
		if r := recover(); r != nil {
			out = "panic"
		}
	}()
	w, err := h.ReadWallet()
	if err != nil {
		return "error"
	}
	if bytes.Equal(w.Private, orig.Private) && bytes.Equal(w.Public, orig.Public) && w.Address() == orig.Address() {
		return "ok-same"
	}
	return "ok-other"
}

// fileMain: drive file <trace.ndjson> <seed> <tier> <scratchdir>
// nestingSealer runs `inner` once, before (or after) sealing.
type nestingSealer struct {
	aeswrapper.Helper
	inner func()
	after bool
}

func (s *nestingSealer) Encrypt(key, data []byte) ([]byte, error) {
	f := s.inner
	s.inner = nil
	if f != nil && !s.after {
		f()
	}
	out, err := s.Helper.Encrypt(key, data)
	if f != nil && s.after {
		f()
	}
	return out, err
}

func fileMain(args []string) {
	if len(args) != 4 {
		fatal("usage: drive file <trace.ndjson> <seed> <quick|thorough> <scratchdir>")
	}
	sd, _ := strconv.Atoi(args[1])
	rng := mrand.New(mrand.NewSource(int64(sd)))
	thorough := args[2] == "thorough"
	dir := args[3]
	f, err := os.Create(args[0])
	if err != nil {
		fatal("%v", err)
	}
	bw := bufio.NewWriterSize(f, 1<<20)
	enc := json.NewEncoder(bw)
	n := 0
	emit := func(kind string, full, ln, bad int, same, goodlen bool, outcome string) {
		n++
		_ = enc.Encode(map[string]any{"kind": kind, "full": full, "ct": full - 28, "len": ln, "bad": bad, "same": same,
			"goodlen": goodlen, "outcome": outcome})
	}
	wallets := 3
	if thorough {
		wallets = 40
	}
	for wi := 0; wi < wallets; wi++ {
		w, err := wallet.New()
		if err != nil {
			fatal("%v", err)
		}
		keylen := []int{32, 16}[wi%2]
		key := make([]byte, keylen)
		_, _ = rand.Read(key)
		path := filepath.Join(dir, fmt.Sprintf("wallet_%d", wi))
		cfg := fileoperations.Config{WalletPath: path, WalletPasswd: hex.EncodeToString(key), WalletPemPath: path + ".pem"}
		h := fileoperations.New(cfg, aeswrapper.New())
		if wi%2 == 1 {
			// the path already holds an older wallet saved with the same key: whatever is damaged afterwards
			// must be an error, never the older wallet
			w0, _ := wallet.New()
			if err := h.SaveWallet(&w0); err != nil {
				fatal("save: %v", err)
			}
		}
		if err := h.SaveWallet(&w); err != nil {
			fatal("save: %v", err)
		}
		orig, _ := os.ReadFile(path)
		full := len(orig)
		emit("intact", full, full, 0, true, true, readOutcome(h, &w))
		// every truncation length (a crash during the write leaves any prefix)
		for l := 0; l < full; l++ {
			_ = os.WriteFile(path, orig[:l], 0644)
			emit("truncated", full, l, 0, true, true, readOutcome(h, &w))
		}
		// every single byte changed
		deltas := []byte{1, 0xFF, 0x80}
		if thorough && wi < 4 {
			deltas = nil
			for d := 1; d < 256; d++ {
				deltas = append(deltas, byte(d))
			}
		}
		for i := 0; i < full; i++ {
			for _, d := range deltas {
				c := append([]byte{}, orig...)
				c[i] ^= d
				_ = os.WriteFile(path, c, 0644)
				emit("corrupted", full, full, i+1, true, true, readOutcome(h, &w))
			}
		}
		// truncated and corrupted
		for j := 0; j < 60; j++ {
			l := rng.Intn(full)
			c := append([]byte{}, orig[:l]...)
			bad := 0
			if l > 0 {
				bad = rng.Intn(l) + 1
				c[bad-1] ^= byte(1 + rng.Intn(255))
			}
			_ = os.WriteFile(path, c, 0644)
			emit("truncated+corrupted", full, l, bad, true, true, readOutcome(h, &w))
		}
		_ = os.WriteFile(path, orig, 0644)
		// wrong keys of a valid length, keys of invalid lengths, one flipped key bit
		nkeys := 200
		if thorough {
			nkeys = 1000
		}
		for j := 0; j < nkeys; j++ {
			k2 := make([]byte, []int{16, 32}[j%2])
			_, _ = rand.Read(k2)
			h2 := fileoperations.New(fileoperations.Config{WalletPath: path, WalletPasswd: hex.EncodeToString(k2)}, aeswrapper.New())
			emit("wrongkey", full, full, 0, false, true, readOutcome(h2, &w))
		}
		for bit := 0; bit < keylen*8; bit++ {
			k2 := append([]byte{}, key...)
			k2[bit/8] ^= 1 << (bit % 8)
			h2 := fileoperations.New(fileoperations.Config{WalletPath: path, WalletPasswd: hex.EncodeToString(k2)}, aeswrapper.New())
			emit("keybit", full, full, 0, false, true, readOutcome(h2, &w))
		}
		for _, kl := range []int{0, 1, 15, 17, 24, 31, 33, 64} {
			k2 := make([]byte, kl)
			_, _ = rand.Read(k2)
			h2 := fileoperations.New(fileoperations.Config{WalletPath: path, WalletPasswd: hex.EncodeToString(k2)}, aeswrapper.New())
			emit("keylen", full, full, 0, false, false, readOutcome(h2, &w))
			// also on a short file: the key check comes first
			_ = os.WriteFile(path, orig[:5], 0644)
			emit("keylen+short", full, 5, 0, false, false, readOutcome(h2, &w))
			_ = os.WriteFile(path, orig, 0644)
		}
		// keys RELATED to the right one: the right key followed by more bytes (any length that is not a key size must
		// be refused as such, 32 bytes made of a 16 byte key and padding is simply a wrong key), and its first 16 bytes
		for _, extra := range []int{1, 8, 15, 16, 17, 32, 48} {
			k2 := append(append([]byte{}, key...), bytes.Repeat([]byte{byte(extra)}, extra)...)
			h2 := fileoperations.New(fileoperations.Config{WalletPath: path, WalletPasswd: hex.EncodeToString(k2)}, aeswrapper.New())
			if len(k2) == 16 || len(k2) == 32 {
				emit("wrongkey", full, full, 0, false, true, readOutcome(h2, &w))
			} else {
				emit("keylen", full, full, 0, false, false, readOutcome(h2, &w))
			}
		}
		if keylen == 32 {
			h2 := fileoperations.New(fileoperations.Config{WalletPath: path, WalletPasswd: hex.EncodeToString(key[:16])}, aeswrapper.New())
			emit("wrongkey", full, full, 0, false, true, readOutcome(h2, &w))
		}
		// PEM round trip (not encrypted: identity of the key pair is the claim)
		if err := h.SaveToPem(&w); err == nil {
			w2, err := h.ReadFromPem()
			out := "error"
			if err == nil && bytes.Equal(w2.Private, w.Private) && bytes.Equal(w2.Public, w.Public) && w2.Address() == w.Address() {
				out = "ok-same"
			} else if err == nil {
				out = "ok-other"
			}
			emit("pem", full, full, 0, true, true, out)
		} else {
			emit("pem", full, full, 0, true, true, "error-save")
		}
	}
	// one save nested inside another: a complete SaveWallet of another wallet (other key, other path, other helper)
	// runs between the encoding and the sealing step of the first one, and between sealing and writing - the
	// interleavings of two savers at the granularity encode | seal | write. Both files read back as saved.
	nest := 6
	if thorough {
		nest = 60
	}
	for r := 0; r < nest; r++ {
		wa, _ := wallet.New()
		wb, _ := wallet.New()
		ka, kb := make([]byte, []int{32, 16}[r%2]), make([]byte, []int{16, 32}[r%2])
		_, _ = rand.Read(ka)
		_, _ = rand.Read(kb)
		pa, pb := filepath.Join(dir, "nest_a"), filepath.Join(dir, "nest_b")
		hb := fileoperations.New(fileoperations.Config{WalletPath: pb, WalletPasswd: hex.EncodeToString(kb)}, aeswrapper.New())
		sa := &nestingSealer{Helper: aeswrapper.New(), after: r%2 == 1}
		sa.inner = func() {
			if err := hb.SaveWallet(&wb); err != nil {
				fatal("nested save: %v", err)
			}
		}
		ha := fileoperations.New(fileoperations.Config{WalletPath: pa, WalletPasswd: hex.EncodeToString(ka)}, sa)
		if err := ha.SaveWallet(&wa); err != nil {
			fatal("outer save: %v", err)
		}
		ba, _ := os.ReadFile(pa)
		bb, _ := os.ReadFile(pb)
		emit("intact", len(ba), len(ba), 0, true, true, readOutcome(ha, &wa))
		emit("intact", len(bb), len(bb), 0, true, true, readOutcome(hb, &wb))
	}
	// savers running side by side, each with its own wallet, key, path and helper: every file reads back as the
	// wallet that was saved into it
	rounds, savers := 30, 8
	if thorough {
		rounds = 200
	}
	for r := 0; r < rounds; r++ {
		type job struct {
			w    wallet.Wallet
			h    fileoperations.Helper
			full int
			err  error
		}
		jobs := make([]*job, savers)
		start := make(chan struct{})
		var wg sync.WaitGroup
		for i := range jobs {
			w, _ := wallet.New()
			key := make([]byte, []int{32, 16}[i%2])
			_, _ = rand.Read(key)
			path := filepath.Join(dir, fmt.Sprintf("par_%d", i))
			j := &job{w: w, h: fileoperations.New(fileoperations.Config{WalletPath: path, WalletPasswd: hex.EncodeToString(key)}, aeswrapper.New())}
			jobs[i] = j
			wg.Add(1)
			go func() {
				defer wg.Done()
				<-start
				j.err = j.h.SaveWallet(&j.w)
				if b, err := os.ReadFile(path); err == nil {
					j.full = len(b)
				}
			}()
		}
		close(start)
		wg.Wait()
		for _, j := range jobs {
			if j.err != nil {
				// a save that fails because another save runs next to it: the wallet cannot be read back
				emit("intact", j.full, j.full, 0, true, true, "error-save")
				continue
			}
			emit("intact", j.full, j.full, 0, true, true, readOutcome(j.h, &j.w))
		}
	}
	bw.Flush()
	f.Close()
	fmt.Printf("{\"events\":%d}\n", n)
}
