package main

// Race driver (C18): a seeded concurrent workload over the ledger's public API with its REAL background loops
// running (orphan retry ticker and subscriber, truncation loop), the awaiting cache and the gossip handlers.
// Built with -race; the Go race detector is the oracle, this program only makes the operations overlap.

import (
	"context"
	"errors"
	"fmt"
	"math/rand"
	"os"
	"strconv"
	"sync"
	"sync/atomic"
	"time"

	"github.com/bartossh/Computantis/src/accountant"
	"github.com/bartossh/Computantis/src/cache"
	"github.com/bartossh/Computantis/src/gossip"
	"github.com/bartossh/Computantis/src/pipe"
	pb "github.com/bartossh/Computantis/src/protobufcompiled"
	"github.com/bartossh/Computantis/src/spice"
	"github.com/bartossh/Computantis/src/transaction"
	"github.com/bartossh/Computantis/src/transformers"
	"github.com/bartossh/Computantis/src/wallet"
	"google.golang.org/grpc"
	"google.golang.org/protobuf/types/known/emptypb"
)

// raceMain: drive race <seed> <seconds>
func raceMain(args []string) {
	if len(args) != 2 {
		fatal("usage: drive race <seed> <seconds>")
	}
	sd, _ := strconv.Atoi(args[0])
	secs, _ := strconv.Atoi(args[1])
	node, gr, a, b, foreign := newWallet(), newWallet(), newWallet(), newWallet(), newWallet()
	ctx, cancel := context.WithCancel(context.Background())
	defer cancel()
	ab, err := accountant.NewAccountingBook(ctx, accountant.Config{Truncate: 2000}, wallet.NewVerifier(), node, nopLogger{})
	if err != nil {
		fatal("%v", err)
	}
	if _, err := ab.CreateGenesis("GENESIS", spice.New(100000000, 0), []byte{}, gr.Address()); err != nil {
		fatal("%v", err)
	}
	accountant.VerifTruncateDepth = 40
	hc, _ := cache.New(1<<12, 0)
	fl, _ := cache.NewFlash()
	jug := pipe.New(60000, 60000)
	g := gossip.VerifNew(ab, wallet.NewVerifier(), node, nopLogger{}, hc, fl, jug, "url", time.Second)
	// four peers, half of the forwards to them fail: handlers and origin loops forward to them, one goroutine each
	for i := 0; i < 4; i++ {
		pw := newWallet()
		g.AddPeer(pw.Address(), fmt.Sprintf("peer-%d", i), &flakyClient{})
	}
	go g.RunVertexGossip(ctx)
	go g.RunTransactionGossip(ctx)
	var seq atomic.Int64
	newTrx := func(contract bool) transaction.Transaction {
		n := seq.Add(1)
		var data []byte
		if contract {
			data = []byte("race contract")
		}
		iss, rcv := gr, a
		if n%3 == 0 {
			iss, rcv = gr, b
		}
		t, _ := transaction.New(fmt.Sprintf("race %d", n), spice.New(1, 0), data, rcv.Address(), iss)
		return t
	}
	var tipMu sync.Mutex
	var tips []accountant.Vertex
	remember := func(v accountant.Vertex) {
		tipMu.Lock()
		tips = append(tips, v)
		if len(tips) > 64 {
			tips = tips[len(tips)-64:]
		}
		tipMu.Unlock()
	}
	someTip := func(rng *rand.Rand) (accountant.Vertex, bool) {
		tipMu.Lock()
		defer tipMu.Unlock()
		if len(tips) == 0 {
			return accountant.Vertex{}, false
		}
		return tips[rng.Intn(len(tips))], true
	}
	for i := 0; i < 60; i++ {
		t := newTrx(false)
		if v, err := ab.CreateLeaf(ctx, &t); err == nil {
			remember(v)
		}
	}
	deadline := time.Now().Add(time.Duration(secs) * time.Second)
	var wg sync.WaitGroup
	var ops [10]atomic.Int64
	worker := func(id int, f func(rng *rand.Rand)) {
		wg.Add(1)
		go func() {
			defer wg.Done()
			rng := rand.New(rand.NewSource(int64(sd*100 + id)))
			for time.Now().Before(deadline) {
				f(rng)
			}
		}()
	}
	for i := 0; i < 3; i++ {
		worker(i, func(rng *rand.Rand) { // proposals
			t := newTrx(rng.Intn(4) == 0)
			if v, err := ab.CreateLeaf(ctx, &t); err == nil {
				remember(v)
			}
			ops[0].Add(1)
		})
	}
	for i := 3; i < 6; i++ {
		worker(i, func(rng *rand.Rand) { // gossip deliveries: on a recent vertex, and orphans whose parent comes later
			p, ok := someTip(rng)
			if !ok {
				return
			}
			v1, _ := accountant.NewVertex(newTrx(false), p.Hash, p.Hash, p.Weight+1, foreign)
			v2, _ := accountant.NewVertex(newTrx(true), v1.Hash, v1.Hash, v1.Weight+1, foreign)
			if rng.Intn(2) == 0 {
				_ = ab.AddLeaf(ctx, &v2) // parked: its parent is delivered afterwards, the retry loop admits it
				time.Sleep(time.Duration(rng.Intn(3)) * time.Millisecond)
			}
			if err := ab.AddLeaf(ctx, &v1); err == nil {
				remember(v1)
			}
			ops[1].Add(1)
		})
	}
	worker(6, func(rng *rand.Rand) {
		_, _ = ab.CalculateBalance(ctx, a.Address())
		_, _ = ab.ReadDAGTransactionsByAddress(ctx, b.Address())
		ops[2].Add(1)
	})
	worker(7, func(rng *rand.Rand) {
		for range ab.StreamDAG(ctx) {
		}
		if p, ok := someTip(rng); ok {
			_, _ = ab.ReadVertex(ctx, p.Hash)
			_, _ = ab.ReadTransactionByHash(ctx, p.Transaction.Hash)
		}
		ops[3].Add(1)
		time.Sleep(2 * time.Millisecond)
	})
	var claimed atomic.Uint64
	claimed.Store(4000)
	worker(8, func(rng *rand.Rand) {
		time.Sleep(300 * time.Millisecond)
		// a gossiped vertex that claims a weight above the truncation mark makes the REAL truncation loop run
		// (runTruncate: checkCanTruncate, truncate, nextWeightTruncate) while proposals and deliveries go on
		if p, ok := someTip(rng); ok {
			wgt := claimed.Load()
			claimed.Store(wgt * 3)
			v, _ := accountant.NewVertex(newTrx(true), p.Hash, p.Hash, wgt, foreign)
			_ = ab.AddLeaf(ctx, &v)
		}
		_ = ab.VerifTruncate(ctx)
		_ = ab.AddTrustedNode(foreign.Address())
		_ = ab.RemoveTrustedNode(foreign.Address())
		ops[4].Add(1)
	})
	for i := 9; i < 12; i++ {
		worker(i, func(rng *rand.Rand) { // awaiting cache and gossip handlers
			t := newTrx(true)
			_ = hc.SaveAwaitedTransaction(&t)
			_, _ = hc.ReadTransactions(t.ReceiverAddress)
			if rng.Intn(2) == 0 {
				_, _ = hc.RemoveAwaitedTransaction(t.Hash, t.ReceiverAddress)
			}
			pt, _ := transformers.TrxToProtoTrx(newTrx(true))
			_, _ = g.Server().GossipTrx(ctx, &pb.TrxMsgGossip{Trx: pt})
			// and what the notary does with an accepted contract / a sealed vertex: hand it to the origin loops
			pt2, _ := transformers.TrxToProtoTrx(newTrx(true))
			jug.SendTrx(pt2)
			if p, ok := someTip(rng); ok {
				pc := p
				jug.SendVrx(&pc)
			}
			if p, ok := someTip(rng); ok {
				v, _ := accountant.NewVertex(newTrx(false), p.Hash, p.Hash, p.Weight+1, foreign)
				_, _ = g.Server().GossipVrx(ctx, &pb.VrxMsgGossip{Vertex: vertexToProto(&v)})
			}
			ops[5].Add(1)
		})
	}
	wg.Wait()
	// give the 2 s retry ticker time to run against the parked vertices
	time.Sleep(2500 * time.Millisecond)
	fmt.Printf("{\"proposals\":%d,\"deliveries\":%d,\"reads\":%d,\"streams\":%d,\"truncations\":%d,\"cache_gossip\":%d}\n",
		ops[0].Load(), ops[1].Load(), ops[2].Load(), ops[3].Load(), ops[4].Load(), ops[5].Load())
	os.Exit(0)
}

// flakyClient is a peer whose gossip endpoints fail every other call.
type flakyClient struct {
	pb.GossipAPIClient
	n atomic.Int64
}

func (f *flakyClient) GossipVrx(ctx context.Context, in *pb.VrxMsgGossip, opts ...grpc.CallOption) (*emptypb.Empty, error) {
	if f.n.Add(1)%2 == 0 {
		return nil, errors.New("peer unreachable")
	}
	return &emptypb.Empty{}, nil
}

func (f *flakyClient) GossipTrx(ctx context.Context, in *pb.TrxMsgGossip, opts ...grpc.CallOption) (*emptypb.Empty, error) {
	if f.n.Add(1)%2 == 0 {
		return nil, errors.New("peer unreachable")
	}
	return &emptypb.Empty{}, nil
}

func (f *flakyClient) GetVertex(ctx context.Context, in *pb.SignedHash, opts ...grpc.CallOption) (*pb.Vertex, error) {
	return nil, errors.New("peer unreachable")
}
