module verif/harness

go 1.21

require github.com/bartossh/Computantis/src v0.0.0

require (
	github.com/allegro/bigcache v1.2.1
	github.com/dgraph-io/badger/v4 v4.2.0
	github.com/gofiber/fiber/v2 v2.52.5
	github.com/heimdalr/dag v1.3.1
	github.com/mr-tron/base58 v1.2.0
	github.com/nats-io/nats.go v1.30.2
	github.com/prometheus/client_golang v1.17.0
	github.com/pterm/pterm v0.12.69
	github.com/shamaton/msgpack/v2 v2.1.1
	github.com/stretchr/testify v1.8.4
	github.com/urfave/cli/v2 v2.25.4
	github.com/valyala/fasthttp v1.51.0
	github.com/vmihailenco/msgpack v4.0.4+incompatible
	go.mongodb.org/mongo-driver v1.12.1
	golang.org/x/crypto v0.21.0
	golang.org/x/exp v0.0.0-20231006140011-7918f672742d
	google.golang.org/grpc v1.58.3
	google.golang.org/protobuf v1.33.0
	gopkg.in/yaml.v2 v2.4.0
	gotest.tools/v3 v3.5.0
)
require (
	atomicgo.dev/cursor v0.2.0 // indirect
	atomicgo.dev/keyboard v0.2.9 // indirect
	atomicgo.dev/schedule v0.1.0 // indirect
	github.com/andybalholm/brotli v1.0.5 // indirect
	github.com/beorn7/perks v1.0.1 // indirect
	github.com/cespare/xxhash/v2 v2.2.0 // indirect
	github.com/containerd/console v1.0.3 // indirect
	github.com/cpuguy83/go-md2man/v2 v2.0.3 // indirect
	github.com/davecgh/go-spew v1.1.1 // indirect
	github.com/dgraph-io/ristretto v0.1.1 // indirect
	github.com/dustin/go-humanize v1.0.0 // indirect
	github.com/emirpasic/gods v1.18.1 // indirect
	github.com/gogo/protobuf v1.3.2 // indirect
	github.com/golang/glog v1.1.0 // indirect
	github.com/golang/groupcache v0.0.0-20190702054246-869f871628b6 // indirect
	github.com/golang/protobuf v1.5.3 // indirect
	github.com/golang/snappy v0.0.3 // indirect
	github.com/google/flatbuffers v1.12.1 // indirect
	github.com/google/go-cmp v0.5.9 // indirect
	github.com/google/uuid v1.5.0 // indirect
	github.com/gookit/color v1.5.4 // indirect
	github.com/klauspost/compress v1.17.1 // indirect
	github.com/kr/text v0.2.0 // indirect
	github.com/lithammer/fuzzysearch v1.1.8 // indirect
	github.com/mattn/go-colorable v0.1.13 // indirect
	github.com/mattn/go-isatty v0.0.20 // indirect
	github.com/mattn/go-runewidth v0.0.15 // indirect
	github.com/matttproud/golang_protobuf_extensions v1.0.4 // indirect
	github.com/nats-io/nats-server/v2 v2.9.23 // indirect
	github.com/nats-io/nkeys v0.4.6 // indirect
	github.com/nats-io/nuid v1.0.1 // indirect
	github.com/pkg/errors v0.9.1 // indirect
	github.com/pmezard/go-difflib v1.0.0 // indirect
	github.com/prometheus/client_model v0.5.0 // indirect
	github.com/prometheus/common v0.44.0 // indirect
	github.com/prometheus/procfs v0.12.0 // indirect
	github.com/rivo/uniseg v0.4.4 // indirect
	github.com/russross/blackfriday/v2 v2.1.0 // indirect
	github.com/valyala/bytebufferpool v1.0.0 // indirect
	github.com/valyala/tcplisten v1.0.0 // indirect
	github.com/xo/terminfo v0.0.0-20220910002029-abceb7e1c41e // indirect
	github.com/xrash/smetrics v0.0.0-20201216005158-039620a65673 // indirect
	go.opencensus.io v0.22.5 // indirect
	golang.org/x/net v0.23.0 // indirect
	golang.org/x/sys v0.18.0 // indirect
	golang.org/x/term v0.18.0 // indirect
	golang.org/x/text v0.14.0 // indirect
	google.golang.org/appengine v1.6.8 // indirect
	google.golang.org/genproto/googleapis/rpc v0.0.0-20230711160842-782d3b101e98 // indirect
	gopkg.in/yaml.v3 v3.0.1 // indirect
)

replace github.com/bartossh/Computantis/src => /repo/src
